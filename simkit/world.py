"""World: one simulated run's universe (tape, clock, SimFS, scheduler) and the
patches that put mapproxy's seams under its control for the duration of the run.
Nothing stays patched outside a `with World(...)` block.
"""
import builtins
import fcntl
import gc
import io
import os
import random
import shutil
import sys
import threading
import time

from . import sched as _sched
from .fs import SimFS, FD_BASE
from .sched import Sched, Proc, SimQueue, SimQueueModule


class SimClock(object):
    def __init__(self, start=1.7e9, tick=1e-6):
        self.now = float(start)
        self.tick = tick
        self.reads = 0

    def time(self):
        self.now += self.tick
        self.reads += 1
        return self.now


_REAL = {}


def _capture():
    if _REAL:
        return
    for name in ('stat', 'lstat', 'listdir', 'scandir', 'mkdir', 'rmdir', 'remove', 'unlink', 'rename',
                 'replace', 'link', 'symlink', 'readlink', 'chmod', 'utime', 'open', 'fdopen', 'close',
                 'fstat', 'getpid', 'access', 'read', 'write', 'makedirs', 'fchmod', 'fsync', 'fdatasync', 'ftruncate',
                 'lseek', 'truncate', 'pwrite', 'pread'):
        _REAL['os.' + name] = getattr(os, name)
    _REAL['builtins.open'] = builtins.open
    _REAL['io.open'] = io.open
    _REAL['fcntl.flock'] = fcntl.flock
    _REAL['time.time'] = time.time
    _REAL['time.sleep'] = time.sleep
    _REAL['shutil.rmtree'] = shutil.rmtree


_capture()
_active = [None]


def active_world():
    return _active[0]


class World(object):
    def __init__(self, tape, policy=('sticky', 0.2), step_cap=20000, eager_time=False,
                 start_time=1.7e9, tick=1e-6, prefix='/simfs', with_sched=True, fs=None, clock=None):
        self.tape = tape
        self.clock = clock if clock is not None else SimClock(start_time, tick)
        if fs is not None:
            self.fs = fs
            fs.clock = self.clock
            fs.frozen = False
        else:
            self.fs = SimFS(prefix, self.clock)
        self.sched = Sched(tape, self.clock, policy, step_cap, eager_time) if with_sched else None
        self.fs.sched = self.sched
        self.procs = []
        self.main_proc = self.new_proc('main')
        self.fs.default_proc = self.main_proc
        self._saved = {}
        self._gc_was = None
        self.extra_patches = []     # (obj, attr, value)

    def new_proc(self, name):
        p = Proc(name, pid=4000 + len(self.procs))
        self.procs.append(p)
        return p

    # ------------------------------------------------------------------
    def _patch(self, obj, attr, value):
        self._saved[(id(obj), attr)] = (obj, attr, getattr(obj, attr))
        setattr(obj, attr, value)

    def __enter__(self):
        if _active[0] is not None:
            raise RuntimeError('nested World')
        _active[0] = self
        fs = self.fs
        R = _REAL
        sim = fs.is_sim

        def d1(name, simfn):
            real = R['os.' + name]

            def f(path, *a, **kw):
                if sim(path):
                    return simfn(path, *a, **kw)
                return real(path, *a, **kw)
            f.__name__ = name
            return f

        def os_stat(path, *, dir_fd=None, follow_symlinks=True):
            if dir_fd is None and sim(path):
                return fs.stat(path, follow_symlinks=follow_symlinks)
            return R['os.stat'](path, dir_fd=dir_fd, follow_symlinks=follow_symlinks)

        def os_lstat(path, *, dir_fd=None):
            if dir_fd is None and sim(path):
                return fs.stat(path, follow_symlinks=False)
            return R['os.lstat'](path, dir_fd=dir_fd)

        def os_listdir(path='.'):
            if sim(path):
                return fs.listdir(path)
            return R['os.listdir'](path)

        def os_scandir(path='.'):
            if sim(path):
                return fs.scandir(path)
            return R['os.scandir'](path)

        def os_rename(src, dst, **kw):
            if sim(src) != sim(dst):
                import errno as _errno
                raise OSError(_errno.EXDEV, os.strerror(_errno.EXDEV), os.fspath(src), None, os.fspath(dst))
            if sim(src) or sim(dst):
                return fs.rename(src, dst)
            return R['os.rename'](src, dst, **kw)

        def os_link(src, dst, **kw):
            if sim(src) or sim(dst):
                return fs.link(src, dst)
            return R['os.link'](src, dst, **kw)

        def os_symlink(src, dst, *a, **kw):
            if sim(dst):
                return fs.symlink(src, dst)
            return R['os.symlink'](src, dst, *a, **kw)

        def os_open(path, flags, mode=0o777, **kw):
            if sim(path):
                return fs.os_open(path, flags, mode)
            return R['os.open'](path, flags, mode, **kw)

        def os_close(fd):
            if isinstance(fd, int) and fd >= FD_BASE:
                return fs.fd_close(fd)
            return R['os.close'](fd)

        def os_fstat(fd):
            if isinstance(fd, int) and fd >= FD_BASE:
                return fs.fstat(fd)
            return R['os.fstat'](fd)

        def fdop(name, simfn):
            real = R['os.' + name]

            def f(fd, *a, **kw):
                if isinstance(fd, int) and fd >= FD_BASE:
                    return simfn(fd, *a, **kw)
                return real(fd, *a, **kw)
            f.__name__ = name
            return f

        def os_truncate(path, length):
            if isinstance(path, int):
                return os.ftruncate(path, length)
            if sim(path):
                fd = fs.os_open(path, os.O_WRONLY)
                try:
                    return fs.fd_truncate(fd, length)
                finally:
                    fs.fd_close(fd)
            return R['os.truncate'](path, length)

        def os_read(fd, n):
            if isinstance(fd, int) and fd >= FD_BASE:
                return fs.fd_read(fd, n)
            return R['os.read'](fd, n)

        def os_write(fd, data):
            if isinstance(fd, int) and fd >= FD_BASE:
                return fs.fd_write(fd, bytes(data))
            return R['os.write'](fd, data)

        def os_fdopen(fd, mode='r', buffering=-1, encoding=None, *a, **kw):
            if isinstance(fd, int) and fd >= FD_BASE:
                return fs.open(fd, mode, buffering, encoding, *a, **kw)
            return R['os.fdopen'](fd, mode, buffering, encoding, *a, **kw)

        def os_utime(path, times=None, **kw):
            if sim(path):
                return fs.utime(path, times)
            return R['os.utime'](path, times, **kw)

        def os_access(path, mode, **kw):
            if sim(path):
                return fs.access(path, mode)
            return R['os.access'](path, mode, **kw)

        def os_chmod(path, mode, **kw):
            if sim(path):
                return fs.chmod(path, mode)
            return R['os.chmod'](path, mode, **kw)

        def os_getpid():
            if self.sched is not None:
                p = self.sched.current_proc()
                if p is not None:
                    return p.pid
            return self.fs.default_proc.pid

        def py_open(file, mode='r', buffering=-1, encoding=None, errors=None, newline=None,
                    closefd=True, opener=None):
            if sim(file):
                return fs.open(file, mode, buffering, encoding, errors, newline, closefd, opener)
            return R['io.open'](file, mode, buffering, encoding, errors, newline, closefd, opener)

        def flock(fd, flags):
            if isinstance(fd, int) and fd >= FD_BASE:
                return fs.flock(fd, flags)
            if hasattr(fd, 'fileno') and not isinstance(fd, int):
                n = fd.fileno()
                if n >= FD_BASE:
                    return fs.flock(n, flags)
            return R['fcntl.flock'](fd, flags)

        def rmtree(path, ignore_errors=False, onerror=None, **kw):
            if sim(path):
                return fs.rmtree(path, ignore_errors)
            return R['shutil.rmtree'](path, ignore_errors, onerror, **kw)

        def t_time():
            return self.clock.time()

        def t_sleep(dt):
            if self.sched is not None:
                return self.sched.sleep(dt)
            self.clock.now += max(dt, 0)

        P = self._patch
        P(os, 'stat', os_stat)
        P(os, 'lstat', os_lstat)
        P(os, 'listdir', os_listdir)
        P(os, 'scandir', os_scandir)
        P(os, 'mkdir', d1('mkdir', fs.mkdir))
        P(os, 'rmdir', d1('rmdir', fs.rmdir))
        P(os, 'remove', d1('remove', fs.unlink))
        P(os, 'unlink', d1('unlink', fs.unlink))
        P(os, 'readlink', d1('readlink', fs.readlink))
        P(os, 'rename', os_rename)
        P(os, 'replace', os_rename)
        P(os, 'link', os_link)
        P(os, 'symlink', os_symlink)
        P(os, 'chmod', os_chmod)
        P(os, 'utime', os_utime)
        P(os, 'access', os_access)
        P(os, 'open', os_open)
        P(os, 'close', os_close)
        P(os, 'fstat', os_fstat)
        P(os, 'read', os_read)
        P(os, 'write', os_write)
        P(os, 'fdopen', os_fdopen)
        P(os, 'fchmod', fdop('fchmod', fs.fd_chmod))
        P(os, 'fsync', fdop('fsync', fs.fd_sync))
        P(os, 'fdatasync', fdop('fdatasync', fs.fd_sync))
        P(os, 'ftruncate', fdop('ftruncate', fs.fd_truncate))
        P(os, 'lseek', fdop('lseek', fs.fd_seek))
        P(os, 'truncate', os_truncate)
        P(os, 'pwrite', fdop('pwrite', fs.fd_pwrite))
        P(os, 'pread', fdop('pread', fs.fd_pread))
        P(os, 'getpid', os_getpid)
        P(builtins, 'open', py_open)
        P(io, 'open', py_open)
        P(fcntl, 'flock', flock)
        P(shutil, 'rmtree', rmtree)
        P(time, 'time', t_time)
        P(time, 'sleep', t_sleep)

        if self.sched is not None:
            sch = self.sched

            def th_start(thread):
                if sch.running and sch.in_task() and not sch.aborting:
                    return sch.adopt_thread(thread)
                return _sched._orig_thread_start(thread)

            def th_join(thread, timeout=None):
                task = getattr(thread, '_sim_task', None)
                if task is not None and sch.in_task():
                    sch.yield_point('thread-join', task.tid)
                    sch.wait_until(lambda: task.state == _sched.DONE, 'thread-join-wait', task.tid)
                    return
                return _sched._orig_thread_join(thread, timeout)

            def th_is_alive(thread):
                task = getattr(thread, '_sim_task', None)
                if task is not None:
                    return task.state != _sched.DONE
                return _sched._orig_thread_is_alive(thread)

            P(threading.Thread, 'start', th_start)
            P(threading.Thread, 'join', th_join)
            P(threading.Thread, 'is_alive', th_is_alive)
            SimQueue._sched = sch
            SimQueue._count[0] = 0
            import mapproxy.util.async_ as async_
            P(async_, 'Queue', SimQueueModule)

        for obj, attr, value in self.extra_patches:
            P(obj, attr, value)

        # process-global state the code under test keeps
        import mapproxy.util.lock as mlock
        P(mlock, '_cleanup_counter', -1)
        random.seed(self.tape.fork_seed('global-random'))
        self._unraisable = sys.unraisablehook

        def quiet_unraisable(u, _prev=self._unraisable):
            # __del__ of objects owned by aborted / killed tasks: a dead process cannot act
            if isinstance(u.exc_value, (_sched.SimAbort, _sched.SimCrash)):
                return
            _prev(u)
        sys.unraisablehook = quiet_unraisable
        self._gc_was = gc.isenabled()
        gc.disable()
        return self

    def __exit__(self, *exc):
        self.fs.frozen = True
        for obj, attr, old in reversed(list(self._saved.values())):
            setattr(obj, attr, old)
        self._saved.clear()
        SimQueue._sched = None
        sys.unraisablehook = self._unraisable
        _active[0] = None
        if self._gc_was:
            gc.enable()
        return False

    # ------------------------------------------------------------------
    def run_tasks(self):
        return self.sched.run()
