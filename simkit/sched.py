"""Deterministic baton-passing scheduler over real threads.

Exactly one simulated task holds the baton.  Every seam call (SimFS op, clock
sleep, queue op, upstream call, explicit harness yield) is a yield point at
which a tape-driven chooser decides which runnable task continues.  Real
threads parked and released one at a time replay exactly; the only thing that
is never real is the *choice* of who runs.
"""
import _thread
import threading

RUNNABLE, BLOCKED, SLEEPING, DONE = 0, 1, 2, 3

_orig_thread_start = threading.Thread.start
_orig_thread_join = threading.Thread.join
_orig_thread_is_alive = threading.Thread.is_alive


class SimAbort(BaseException):
    """the run is being torn down (step cap, deadlock, violation found)"""


class SimCrash(BaseException):
    """the simulated process this task belongs to has been killed"""


class Proc(object):
    """a simulated OS process: pid, fd table, crash flag"""
    _next_pid = [4000]

    def __init__(self, name, pid=None):
        self.name = name
        self.pid = pid
        self.dead = False
        self.fds = {}

    def __repr__(self):
        return '<Proc %s pid=%s%s>' % (self.name, self.pid, ' DEAD' if self.dead else '')


class Task(object):
    __slots__ = ('tid', 'name', 'proc', 'thread', 'lock', 'state', 'wake_at', 'pred',
                 'exc', 'result', 'fn', 'started', 'waitdesc')

    def __init__(self, tid, name, proc):
        self.tid = tid
        self.name = name
        self.proc = proc
        self.thread = None
        self.lock = _thread.allocate_lock()
        self.lock.acquire()
        self.state = RUNNABLE
        self.wake_at = None
        self.pred = None
        self.exc = None
        self.result = None
        self.fn = None
        self.started = False
        self.waitdesc = None

    def __repr__(self):
        return '<Task %d %s st=%d>' % (self.tid, self.name, self.state)


class Sched(object):
    def __init__(self, tape, clock, policy=('sticky', 0.2), step_cap=20000, eager_time=False):
        self.tape = tape
        self.clock = clock
        self.policy = policy
        self.step_cap = step_cap
        self.eager_time = eager_time
        self.tasks = []
        self.by_ident = {}
        self.current = None
        self.steps = 0
        self.switches = 0
        self.log = []
        self.aborting = False
        self.outcome = None      # 'done' | 'deadlock' | 'step-cap' | 'abort:<why>'
        self.driver_lock = _thread.allocate_lock()
        self.driver_lock.acquire()
        self.on_yield = None     # hook(task, kind, key) -> None ; may crash procs / raise
        self.gc_every = None     # run the (otherwise disabled) cyclic garbage collector every N steps: deterministic stand-in
        #                          for code that relies on it to close descriptors held in reference cycles
        self.time_jumps = 0
        self.stuck_info = None
        self.running = False
        self.unexpected = []     # unexpected exceptions that killed adopted threads
        self._lp = None          # line pre-emption: (path parts, mean distance in lines), see enable_line_preemption
        self._lp_left = 0
        self.line_yields = 0

    # ------------------------------------------------------------------
    def _me(self):
        return self.by_ident.get(_thread.get_ident())

    def in_task(self):
        return _thread.get_ident() in self.by_ident

    def current_proc(self):
        t = self.by_ident.get(_thread.get_ident())
        return t.proc if t is not None else None

    def step_wall_clock(self, delta):
        """the wall clock is set forward or back by `delta` seconds; sleeps are measured by a monotonic clock in reality, so the
        wake-up times of sleeping tasks move with it (nobody sleeps longer or shorter because of the step)"""
        self.clock.now += delta
        for t in self.tasks:
            if t.wake_at is not None:
                t.wake_at += delta

    # -- pre-emption inside pure Python code ---------------------------------
    def enable_line_preemption(self, path_parts, every):
        """line events (sys.settrace) of code whose file name contains one of `path_parts` become pre-emption points of the
        tasks started from now on, on average one in `every` lines (distances drawn from the tape): a thread switch between
        two statements of the code under test, where no system call or queue operation would offer one"""
        # the traced modules are imported now: a module body that runs under the tracer would yield while holding the
        # interpreter's import lock (a second importing thread then blocks for real), and only in the first case of a process
        import importlib
        for part in path_parts:
            if part.endswith('.py'):
                try:
                    importlib.import_module(part[:-3].replace('/', '.'))
                except ImportError:
                    pass
        self._lp = (tuple(path_parts), int(every))
        self._lp_left = self.tape.randint(1, 2 * int(every))

    def _trace_global(self, frame, event, arg):
        if event == 'call' and self._lp is not None:
            fn = frame.f_code.co_filename
            for part in self._lp[0]:
                if part in fn:
                    return self._trace_local
        return None

    def _trace_local(self, frame, event, arg):
        if event == 'line' and not self.aborting:
            self._lp_left -= 1
            if self._lp_left <= 0:
                self._lp_left = self.tape.randint(1, 2 * self._lp[1])
                self.line_yields += 1
                self.yield_point('line', frame.f_lineno)
        return self._trace_local

    def _install_trace(self):
        if self._lp is not None:
            import sys
            sys.settrace(self._trace_global)

    # -- task creation -------------------------------------------------
    def spawn(self, fn, name, proc):
        task = Task(len(self.tasks), name, proc)
        task.fn = fn
        self.tasks.append(task)
        th = threading.Thread(target=self._task_main, args=(task,), name='sim-%s' % name)
        th.daemon = True
        task.thread = th
        _orig_thread_start(th)
        return task

    def _task_main(self, task):
        self.by_ident[_thread.get_ident()] = task
        task.lock.acquire()          # park until first scheduled
        task.started = True
        try:
            if not self.aborting and not task.proc.dead:
                self._install_trace()
                task.result = task.fn()
        except SimAbort:
            pass
        except SimCrash:
            pass
        except BaseException as ex:   # noqa - harness tasks report their own exceptions
            task.exc = ex
        finally:
            self._finish(task)

    def adopt_thread(self, thread):
        """called from the patched Thread.start for threads created by code under test"""
        me = self._me()
        task = Task(len(self.tasks), 'T%d<%s' % (len(self.tasks), me.name), me.proc)
        self.tasks.append(task)
        task.thread = thread
        orig_run = thread.run

        def run():
            self.by_ident[_thread.get_ident()] = task
            task.lock.acquire()
            task.started = True
            try:
                if not self.aborting and not task.proc.dead:
                    self._install_trace()
                    orig_run()
            except (SimAbort, SimCrash):
                pass
            except BaseException as ex:  # noqa
                task.exc = ex
                self.unexpected.append((task.name, repr(ex)))
            finally:
                self._finish(task)
        thread.run = run
        thread._sim_task = task
        _orig_thread_start(thread)
        self.yield_point('thread-start', task.tid)
        return task

    # -- the chooser -----------------------------------------------------
    def _candidates(self, me):
        now = self.clock.now
        cands = []
        zombies = None
        for t in self.tasks:
            st = t.state
            if st == DONE:
                continue
            if t.proc.dead:
                # tasks of a killed process unwind immediately, deterministically
                if t is not me or st == RUNNABLE:
                    return [t], True
            if st == RUNNABLE:
                cands.append(t)
            elif st == BLOCKED:
                if t.pred():
                    cands.append(t)
            elif st == SLEEPING:
                if t.wake_at <= now:
                    cands.append(t)
        return cands, False

    def _choose(self, me):
        """me: the calling task if it is still able to run (else None)"""
        cands, forced = self._candidates(me)
        if forced:
            return cands[0]
        sleepers = None
        if not cands or self.eager_time:
            sleepers = [t for t in self.tasks if t.state == SLEEPING and t.wake_at > self.clock.now]
            sleepers.sort(key=lambda t: (t.wake_at, t.tid))
        if not cands:
            if not sleepers:
                return None
            # nothing runnable: jump the clock to the next timer
            self.clock.now = sleepers[0].wake_at
            self.time_jumps += 1
            cands = [t for t in sleepers if t.wake_at <= self.clock.now]
            sleepers = None
        if me is not None and me in cands:
            cands.remove(me)
            cands.insert(0, me)
            mefirst = True
        else:
            mefirst = False
        n = len(cands)
        extra = 1 if (sleepers and self.eager_time) else 0
        if n + extra == 1:
            return cands[0]
        kind = self.policy[0]
        if kind == 'sticky' and mefirst:
            if not self.tape.chance(self.policy[1]):
                return cands[0]
            i = 1 + self.tape.choice(n - 1 + extra)
        else:
            i = self.tape.choice(n + extra)
        if i >= n:
            # eager time: let the earliest sleeper run now (everybody else was "slow")
            t = sleepers[0]
            self.clock.now = t.wake_at
            self.time_jumps += 1
            return t
        return cands[i]

    # -- switching ---------------------------------------------------------
    def _handoff(self, me, nxt):
        self.current = nxt
        self.switches += 1
        nxt.lock.release()
        me.lock.acquire()
        # resumed
        if self.aborting:
            raise SimAbort()
        if me.proc.dead:
            raise SimCrash()

    def _stuck(self, why):
        self.outcome = why
        self.stuck_info = [(t.name, t.state, t.waitdesc) for t in self.tasks if t.state != DONE]
        self.driver_lock.release()

    def yield_point(self, kind, key=None):
        me = self.by_ident.get(_thread.get_ident())
        if me is None:
            return
        if self.aborting:
            raise SimAbort()
        if me.proc.dead:
            raise SimCrash()
        self.steps += 1
        if self.steps > self.step_cap:
            self.abort('step-cap')
        if self.on_yield is not None:
            self.on_yield(me, kind, key)
            if me.proc.dead:
                raise SimCrash()
        if self.gc_every and self.steps % self.gc_every == 0:
            import gc
            gc.collect()
        nxt = self._choose(me)
        if nxt is not me:
            self._handoff(me, nxt)
        self.log.append((me.tid, kind, key))

    def check_alive(self):
        """harness observation points call this first: a crash delivered inside a finaliser
        (file object closed by refcount) is swallowed by the interpreter, the task must still stop"""
        me = self.by_ident.get(_thread.get_ident())
        if me is None:
            return
        if self.aborting:
            raise SimAbort()
        if me.proc.dead:
            raise SimCrash()

    def abort(self, why):
        """called from a task: stop the whole run"""
        me = self._me()
        if not self.aborting:
            self.aborting = True
            self.outcome = why
            self.driver_lock.release()
        if me is not None:
            raise SimAbort()

    def wait_until(self, pred, kind, key=None):
        me = self.by_ident.get(_thread.get_ident())
        if me is None:
            if pred():
                return
            raise RuntimeError('blocking wait outside the simulation: %s %r' % (kind, key))
        if self.aborting:
            raise SimAbort()
        if me.proc.dead:
            raise SimCrash()
        if pred():
            return
        self.steps += 1
        if self.steps > self.step_cap:
            self.abort('step-cap')
        me.state = BLOCKED
        me.pred = pred
        me.waitdesc = (kind, key)
        try:
            nxt = self._choose(None)
            if nxt is None:
                self._stuck('deadlock')
                me.lock.acquire()
                raise SimAbort()
            if nxt is not me:
                self._handoff(me, nxt)
        finally:
            me.state = RUNNABLE
            me.pred = None
            me.waitdesc = None
        self.log.append((me.tid, kind + '-woke', key))

    def sleep(self, dt):
        me = self.by_ident.get(_thread.get_ident())
        if me is None:
            self.clock.now += max(dt, 0)
            return
        if self.aborting:
            raise SimAbort()
        if me.proc.dead:
            raise SimCrash()
        self.steps += 1
        if self.steps > self.step_cap:
            self.abort('step-cap')
        me.state = SLEEPING
        me.wake_at = self.clock.now + max(dt, 0)
        me.waitdesc = ('sleep', dt)
        try:
            nxt = self._choose(None)
            if nxt is None:
                self._stuck('deadlock')
                me.lock.acquire()
                raise SimAbort()
            if nxt is not me:
                self._handoff(me, nxt)
        finally:
            me.state = RUNNABLE
            me.wake_at = None
            me.waitdesc = None
        self.log.append((me.tid, 'slept', None))

    def _finish(self, task):
        task.state = DONE
        if self.aborting:
            return
        nxt = self._choose(None)
        if nxt is None:
            if all(t.state == DONE for t in self.tasks):
                self._stuck('done')
            else:
                self._stuck('deadlock')
            return
        self.current = nxt
        self.switches += 1
        nxt.lock.release()

    # -- process crash -------------------------------------------------
    def crash_proc(self, proc, fs=None):
        """kill a simulated process: later seam calls of its tasks have no effect"""
        if proc.dead:
            return
        proc.dead = True
        if fs is not None:
            fs.kill_proc(proc)
        self.log.append((-1, 'crash', proc.name))
        for t in self.tasks:
            if t.proc is proc and t.state in (BLOCKED, SLEEPING):
                t.state = RUNNABLE

    # -- driver side -------------------------------------------------------
    def run(self, join_timeout=20.0):
        """run all spawned tasks to quiescence; returns outcome string"""
        self.running = True
        nxt = self._choose(None)
        if nxt is None:
            self.outcome = 'done'
        else:
            self.current = nxt
            nxt.lock.release()
            self.driver_lock.acquire()
        # teardown: unwind every task that is still parked
        self.aborting = True
        hung = []
        for t in list(self.tasks):
            if t.state != DONE:
                try:
                    t.lock.release()
                except RuntimeError:
                    pass
        for t in list(self.tasks):
            if t.thread is not None:
                _orig_thread_join(t.thread, join_timeout)
                if _orig_thread_is_alive(t.thread):
                    hung.append(t.name)
        self.running = False
        if hung:
            raise RuntimeError('simulator: tasks did not terminate at teardown: %r' % hung)
        return self.outcome


class SimQueue(object):
    """queue.Queue replacement whose blocking goes through the scheduler"""
    import queue as _q
    Empty = _q.Empty
    Full = _q.Full

    _sched = None   # set per run by World
    _count = [0]

    def __init__(self, maxsize=0):
        from collections import deque
        self.items = deque()
        self.maxsize = maxsize
        self.unfinished = 0
        self.sched = SimQueue._sched
        SimQueue._count[0] += 1
        self.qid = SimQueue._count[0]

    def qsize(self):
        return len(self.items)

    def empty(self):
        self.sched.yield_point('q-empty', self.qid)
        return not self.items

    def full(self):
        self.sched.yield_point('q-full', self.qid)
        return self.maxsize > 0 and len(self.items) >= self.maxsize

    @property
    def unfinished_tasks(self):
        # queue.Queue's public counter (put() increments it, task_done() decrements it)
        if self.sched is not None and self.sched.in_task():
            self.sched.yield_point('q-unfinished', self.qid)
        return self.unfinished

    def put(self, item, block=True, timeout=None):
        self.sched.yield_point('q-put', self.qid)
        if self.maxsize > 0 and len(self.items) >= self.maxsize:
            if not block:
                raise self.Full
            if timeout is not None:
                deadline = self.sched.clock.now + timeout
                while len(self.items) >= self.maxsize:
                    if self.sched.clock.now >= deadline:
                        raise self.Full
                    self.sched.sleep(min(0.05, max(deadline - self.sched.clock.now, 1e-6)))
            else:
                self.sched.wait_until(lambda: len(self.items) < self.maxsize, 'q-put-wait', self.qid)
        self.items.append(item)
        self.unfinished += 1

    def put_nowait(self, item):
        return self.put(item, block=False)

    def get(self, block=True, timeout=None):
        self.sched.yield_point('q-get', self.qid)
        if not self.items:
            if not block:
                raise self.Empty
            if timeout is not None:
                # timed wait: either an item arrives or simulated time passes
                deadline = self.sched.clock.now + timeout
                while not self.items:
                    if self.sched.clock.now >= deadline:
                        raise self.Empty
                    self.sched.sleep(min(0.01, max(deadline - self.sched.clock.now, 1e-6)))
            else:
                self.sched.wait_until(lambda: len(self.items) > 0, 'q-get-wait', self.qid)
        return self.items.popleft()

    def get_nowait(self):
        return self.get(block=False)

    def task_done(self):
        self.sched.yield_point('q-done', self.qid)
        if self.unfinished <= 0:
            raise ValueError('task_done() called too many times')
        self.unfinished -= 1

    def join(self):
        self.sched.yield_point('q-join', self.qid)
        self.sched.wait_until(lambda: self.unfinished == 0, 'q-join-wait', self.qid)


class SimQueueModule(object):
    """stands in for the `queue` module object that mapproxy.util.async_ imports as `Queue`"""
    import queue as _q
    Queue = SimQueue
    Empty = _q.Empty
    Full = _q.Full


class _SimSemaphore(object):
    """threading.Semaphore / BoundedSemaphore / Lock whose blocking goes through the scheduler (a real one would block the
    thread that holds the baton and with it the whole simulation)"""
    _count = [0]

    def __init__(self, sched, value=1, bound=None):
        self.sched = sched
        self.value = value
        self.bound = bound
        # numbered per scheduler (= per case): the number is part of the event log and must not depend on earlier cases
        sched._sem_seq = getattr(sched, '_sem_seq', 0) + 1
        self.sid = sched._sem_seq

    def acquire(self, blocking=True, timeout=None):
        if not self.sched.in_task():
            if self.value > 0:
                self.value -= 1
                return True
            raise RuntimeError('blocking acquire outside the simulation')
        self.sched.yield_point('sem-acquire', self.sid)
        if self.value <= 0:
            if not blocking or (timeout is not None and timeout <= 0):
                return False
            if timeout is not None:
                deadline = self.sched.clock.now + timeout
                while self.value <= 0:
                    if self.sched.clock.now >= deadline:
                        return False
                    self.sched.sleep(min(0.05, max(deadline - self.sched.clock.now, 1e-6)))
            else:
                self.sched.wait_until(lambda: self.value > 0, 'sem-wait', self.sid)
        self.value -= 1
        return True

    def release(self, n=1):
        if self.bound is not None and self.value + n > self.bound:
            raise ValueError('Semaphore released too many times')
        self.value += n
        if self.sched.in_task():
            self.sched.yield_point('sem-release', self.sid)

    def locked(self):
        return self.value <= 0

    __enter__ = acquire

    def __exit__(self, *exc):
        self.release()


class SimThreadingModule(object):
    """stands in for the `threading` module object inside one module of the code under test: semaphores and plain locks
    created through it block through the scheduler, everything else is the real thing"""

    def __init__(self, sched):
        self._sched = sched

    def Semaphore(self, value=1):
        return _SimSemaphore(self._sched, value)

    def BoundedSemaphore(self, value=1):
        return _SimSemaphore(self._sched, value, bound=value)

    def Lock(self):
        return _SimSemaphore(self._sched, 1, bound=1)

    def __getattr__(self, name):
        import threading
        return getattr(threading, name)


def simulate_module_primitives(world, module):
    """semaphores and locks that a module of the code under test created at import time (module globals) are replaced by
    scheduler-aware ones for the duration of the World; the module's `threading` name becomes a SimThreadingModule"""
    import threading
    sched = world.sched
    for name, obj in list(vars(module).items()):
        if isinstance(obj, threading.Semaphore):      # BoundedSemaphore is a subclass
            bound = getattr(obj, '_initial_value', None)
            world.extra_patches.append((module, name, _SimSemaphore(sched, obj._value, bound=bound)))
        elif isinstance(obj, type(threading.Lock())):
            world.extra_patches.append((module, name, _SimSemaphore(sched, 0 if obj.locked() else 1, bound=1)))
    if isinstance(vars(module).get('threading'), type(threading)):
        world.extra_patches.append((module, 'threading', SimThreadingModule(sched)))
