"""SimFS: an in-memory POSIX file-system subset mounted at a path prefix.

* inodes, hard links, symlinks, directories, open file descriptions, flock
  owned by the open file description (two opens conflict like two processes)
* every mutation is a low-level *record* applied through apply(); with
  journalling on, the records of a store are kept so that every crash prefix
  (optionally with a torn last write) can be reconstructed on a snapshot
* every public operation is a scheduler yield point and a fault-injection point
* files are handed to the code under test as SimRaw (io.RawIOBase) wrapped in the
  *real* io.Buffered*/TextIOWrapper, so CPython's buffering decides raw write order
"""
import errno
import io
import os
import stat as statmod
import zlib

from .sched import SimAbort, SimCrash

S_IFDIR, S_IFREG, S_IFLNK = statmod.S_IFDIR, statmod.S_IFREG, statmod.S_IFLNK
FD_BASE = 1 << 20
DEV = 0x51


def _err(code, path=None, path2=None):
    if path2 is not None:
        return OSError(code, os.strerror(code), path, None, path2)
    if path is not None:
        return OSError(code, os.strerror(code), path)
    return OSError(code, os.strerror(code))


class Inode(object):
    __slots__ = ('ino', 'kind', 'mode', 'mtime', 'nlink', 'data', 'entries', 'target',
                 'lock_owner', 'opens')

    def __init__(self, ino, kind, mode, mtime, target=None):
        self.ino = ino
        self.kind = kind            # 'f' 'd' 'l'
        self.mode = mode
        self.mtime = mtime
        self.nlink = 0
        self.data = bytearray() if kind == 'f' else None
        self.entries = {} if kind == 'd' else None
        self.target = target
        self.lock_owner = None      # OFD holding LOCK_EX
        self.opens = 0

    def clone(self):
        n = Inode.__new__(Inode)
        n.ino, n.kind, n.mode, n.mtime, n.nlink = self.ino, self.kind, self.mode, self.mtime, self.nlink
        n.data = bytearray(self.data) if self.data is not None else None
        n.entries = dict(self.entries) if self.entries is not None else None
        n.target = self.target
        n.lock_owner = None
        n.opens = 0
        return n

    def st_mode(self):
        return {'f': S_IFREG, 'd': S_IFDIR, 'l': S_IFLNK}[self.kind] | self.mode


class OFD(object):
    """open file description"""
    __slots__ = ('inode', 'pos', 'readable', 'writable', 'append', 'refs', 'proc', 'path', 'closed', 'task')

    def __init__(self, inode, readable, writable, append, proc, path):
        self.inode = inode
        self.pos = 0
        self.readable = readable
        self.writable = writable
        self.append = append
        self.refs = 1
        self.proc = proc
        self.path = path
        self.closed = False
        self.task = None


class SimRaw(io.RawIOBase):
    """raw file object over an OFD; wrapped in the real io buffering classes"""

    def __init__(self, fs, fd, ofd, mode, closefd=True, name=None):
        io.RawIOBase.__init__(self)
        self._fs = fs
        self._fd = fd
        self._ofd = ofd
        self.mode = mode
        self.name = ofd.path if name is None else name      # like FileIO: the descriptor number if opened from one
        self._closefd = closefd

    def fileno(self):
        return self._fd

    def readable(self):
        return self._ofd.readable

    def writable(self):
        return self._ofd.writable

    def seekable(self):
        return True

    def isatty(self):
        return False

    def readinto(self, b):
        data = self._fs.fd_read(self._fd, len(b))
        n = len(data)
        b[:n] = data
        return n

    def write(self, b):
        return self._fs.fd_write(self._fd, bytes(b))

    def seek(self, off, whence=0):
        return self._fs.fd_seek(self._fd, off, whence)

    def tell(self):
        return self._ofd.pos

    def truncate(self, size=None):
        if size is None:
            size = self._ofd.pos
        self._fs.fd_truncate(self._fd, size)
        return size

    def close(self):
        if self.closed:
            return
        try:
            io.RawIOBase.close(self)    # sets closed (calls flush, a no-op for raw)
        finally:
            if self._closefd:
                self._fs.fd_close(self._fd, quiet=True)


class SimDirEntry(object):
    __slots__ = ('name', 'path', '_fs', '_ino')

    def __init__(self, fs, dirpath, name, ino):
        self.name = name
        self.path = os.path.join(dirpath, name)
        self._fs = fs
        self._ino = ino

    def inode(self):
        return self._ino

    def _node(self, follow):
        n = self._fs.inodes[self._ino]
        if follow and n.kind == 'l':
            try:
                return self._fs._resolve(self.path, follow=True)
            except OSError:
                return None
        return n

    def is_dir(self, follow_symlinks=True):
        n = self._node(follow_symlinks)
        return n is not None and n.kind == 'd'

    def is_file(self, follow_symlinks=True):
        n = self._node(follow_symlinks)
        return n is not None and n.kind == 'f'

    def is_symlink(self):
        return self._fs.inodes[self._ino].kind == 'l'

    def is_junction(self):
        return False

    def stat(self, follow_symlinks=True):
        return self._fs.stat(self.path, follow_symlinks=follow_symlinks, _yield=False)

    def __fspath__(self):
        return self.path

    def __repr__(self):
        return '<SimDirEntry %r>' % self.name


class _ScandirIter(object):
    def __init__(self, entries):
        self._it = iter(entries)

    def __iter__(self):
        return self

    def __next__(self):
        return next(self._it)

    def close(self):
        self._it = iter(())

    def __enter__(self):
        return self

    def __exit__(self, *a):
        self.close()


class SimFS(object):
    def __init__(self, prefix='/simfs', clock=None):
        self.prefix = prefix
        self.clock = clock
        self.sched = None
        self.inodes = {}
        self.next_ino = 2
        self.next_fd = FD_BASE
        self.fds = {}               # fd -> (OFD, proc)
        self.journal = None         # list of records when journalling
        self.default_proc = None
        self.fault_hook = None      # hook(op, path_or_ino, proc) -> may raise OSError / return ('short', n)
        self.readdir_salt = None    # permute listing order when not None
        self.mtime_skew = 0.0
        self.mtime_res = None        # granularity of file time stamps in seconds (None: exact)
        self.buffer_size = 8192
        self.frozen = False
        self.op_count = 0
        self.op_log = None          # optional list of (op, key)
        self.probes = {}
        self.dead_fds = set()
        root = Inode(1, 'd', 0o755, 0.0)
        root.nlink = 1
        self.inodes[1] = root

    # ------------------------------------------------------------------
    # snapshots / journal
    def snapshot(self):
        return dict((i, n.clone()) for i, n in self.inodes.items()), self.next_ino

    @classmethod
    def from_snapshot(cls, snap, prefix='/simfs', clock=None):
        fs = cls(prefix, clock)
        nodes, next_ino = snap
        fs.inodes = dict((i, n.clone()) for i, n in nodes.items())
        fs.next_ino = next_ino
        return fs

    def start_journal(self):
        self.journal = []

    def stop_journal(self):
        j, self.journal = self.journal, None
        return j

    def _now(self):
        t = (self.clock.now if self.clock is not None else 0.0) + self.mtime_skew
        if self.mtime_res:
            # file systems with coarse time stamps (1 s: ext3, HFS+, many network file systems; 2 s: FAT)
            t = float(int(t / self.mtime_res) * self.mtime_res)
        return t

    def _mut(self, rec):
        if self.journal is not None:
            self.journal.append(rec)
        self.apply(rec)

    def apply(self, rec, torn=None):
        """apply one low-level mutation record; torn = number of bytes of a write that made it"""
        op = rec[0]
        ino = self.inodes
        if op == 'write':
            _, i, off, data, mtime = rec
            if torn is not None:
                data = data[:torn]
            n = ino[i]
            d = n.data
            if off > len(d):
                d.extend(b'\x00' * (off - len(d)))
            d[off:off + len(data)] = data
            n.mtime = mtime
        elif op == 'trunc':
            _, i, size, mtime = rec
            n = ino[i]
            if size < len(n.data):
                del n.data[size:]
            else:
                n.data.extend(b'\x00' * (size - len(n.data)))
            n.mtime = mtime
        elif op == 'mknod':
            _, i, kind, mode, mtime, target = rec
            ino[i] = Inode(i, kind, mode, mtime, target)
            if i >= self.next_ino:
                self.next_ino = i + 1
        elif op == 'link':
            _, d, name, i, mtime = rec
            ino[d].entries[name] = i
            ino[d].mtime = mtime
            ino[i].nlink += 1
        elif op == 'unlink':
            _, d, name, mtime = rec
            i = ino[d].entries.pop(name)
            ino[d].mtime = mtime
            ino[i].nlink -= 1
        elif op == 'rename':
            _, sd, sname, dd, dname, mtime = rec
            i = ino[sd].entries.pop(sname)
            old = ino[dd].entries.get(dname)
            if old is not None:
                ino[old].nlink -= 1
            ino[dd].entries[dname] = i
            ino[sd].mtime = mtime
            ino[dd].mtime = mtime
        elif op == 'chmod':
            ino[rec[1]].mode = rec[2]
        elif op == 'utime':
            ino[rec[1]].mtime = rec[2]
        else:
            raise ValueError(rec)

    # ------------------------------------------------------------------
    # helpers
    def is_sim(self, path):
        if isinstance(path, int):
            return path >= FD_BASE
        try:
            p = os.fspath(path)
        except TypeError:
            return False
        if isinstance(p, bytes):
            p = os.fsdecode(p)
        pre = self.prefix
        return p.startswith(pre) and (len(p) == len(pre) or p[len(pre)] == '/')

    def _proc(self):
        s = self.sched
        if s is not None:
            p = s.current_proc()
            if p is not None:
                return p
        return self.default_proc

    def _enter(self, op, key, _yield=True):
        """common prologue of every public op: liveness, yield point, fault hook"""
        s = self.sched
        proc = None
        if s is not None:
            me = s._me()
            if me is not None:
                proc = me.proc
                if s.aborting:
                    raise SimAbort()
                if proc.dead:
                    raise SimCrash()
                if _yield:
                    s.yield_point('fs-' + op, key)
        if proc is None:
            proc = self.default_proc
            if proc is not None and proc.dead:
                raise SimCrash()
        if self.frozen:
            raise _err(errno.EROFS, str(key))
        self.op_count += 1
        if self.op_log is not None:
            self.op_log.append((op, key))
        if self.fault_hook is not None:
            r = self.fault_hook(op, key, proc)
            if r is not None:
                return proc, r
        return proc, None

    def _split(self, path):
        p = os.fspath(path)
        if isinstance(p, bytes):
            p = os.fsdecode(p)
        rest = p[len(self.prefix):]
        return [c for c in rest.split('/') if c and c != '.']

    def _walk(self, comps, follow_last, path, depth=0):
        """returns (parent_inode, name, inode_or_None); resolves symlinks in the middle"""
        if depth > 20:
            raise _err(errno.ELOOP, path)
        ino = self.inodes
        stack = [ino[1]]
        i = 0
        comps = list(comps)
        name = None
        if not comps:
            return None, '', ino[1]
        while i < len(comps):
            c = comps[i]
            last = i == len(comps) - 1
            cur = stack[-1]
            if cur.kind != 'd':
                raise _err(errno.ENOTDIR, path)
            if c == '..':
                if len(stack) > 1:
                    stack.pop()
                i += 1
                if last:
                    return None, '', stack[-1]
                continue
            child_ino = cur.entries.get(c)
            if child_ino is None:
                if last:
                    return cur, c, None
                raise _err(errno.ENOENT, path)
            child = ino[child_ino]
            if child.kind == 'l' and (not last or follow_last):
                depth += 1
                if depth > 20:
                    raise _err(errno.ELOOP, path)
                tcomps = [x for x in child.target.split('/') if x and x != '.']
                if child.target.startswith('/'):
                    if not self.is_sim(child.target):
                        raise _err(errno.ENOENT, path)
                    tcomps = self._split(child.target)
                    stack = [ino[1]]
                comps = tcomps + comps[i + 1:]
                i = 0
                if not comps:
                    return None, '', stack[-1]
                continue
            if last:
                return cur, c, child
            stack.append(child)
            i += 1
        return None, '', stack[-1]

    def _resolve(self, path, follow=True):
        parent, name, node = self._walk(self._split(path), follow, path)
        if node is None:
            raise _err(errno.ENOENT, os.fspath(path))
        return node

    def _parent(self, path, follow_last=False):
        parent, name, node = self._walk(self._split(path), follow_last, path)
        if parent is None:
            # path resolved to root or via '..'
            raise _err(errno.EEXIST if node is not None else errno.ENOENT, os.fspath(path))
        return parent, name, node

    def _new_ino(self):
        i = self.next_ino
        self.next_ino += 1
        return i

    # ------------------------------------------------------------------
    # path operations
    def _stat_result(self, n):
        size = len(n.data) if n.kind == 'f' else (len(n.target) if n.kind == 'l' else 4096)
        t = n.mtime
        ns = int(round(t * 1e9))
        return os.stat_result((n.st_mode(), n.ino, DEV, n.nlink, 0, 0, size,
                               int(t), int(t), int(t), t, t, t, ns, ns, ns))

    def stat(self, path, follow_symlinks=True, _yield=True):
        self._enter('stat', os.fspath(path) if not isinstance(path, int) else path, _yield)
        if isinstance(path, int):
            return self.fstat(path, _entered=True)
        return self._stat_result(self._resolve(path, follow_symlinks))

    def lstat(self, path):
        return self.stat(path, follow_symlinks=False)

    def fstat(self, fd, _entered=False):
        if not _entered:
            self._enter('fstat', fd)
        ofd = self._ofd(fd)
        return self._stat_result(ofd.inode)

    def _order(self, names):
        if self.readdir_salt is None:
            return list(names)
        salt = self.readdir_salt
        return sorted(names, key=lambda nm: (zlib.crc32((salt + nm).encode('utf-8')), nm))

    def listdir(self, path):
        self._enter('listdir', os.fspath(path))
        n = self._resolve(path)
        if n.kind != 'd':
            raise _err(errno.ENOTDIR, os.fspath(path))
        return self._order(n.entries.keys())

    def scandir(self, path):
        p = os.fspath(path)
        self._enter('scandir', p)
        n = self._resolve(path)
        if n.kind != 'd':
            raise _err(errno.ENOTDIR, p)
        return _ScandirIter([SimDirEntry(self, p, nm, n.entries[nm]) for nm in self._order(n.entries.keys())])

    def mkdir(self, path, mode=0o777):
        p = os.fspath(path)
        self._enter('mkdir', p)
        parent, name, node = self._parent(path)
        if node is not None:
            raise _err(errno.EEXIST, p)
        i = self._new_ino()
        now = self._now()
        self._mut(('mknod', i, 'd', mode & 0o755, now, None))
        self._mut(('link', parent.ino, name, i, now))

    def rmdir(self, path):
        p = os.fspath(path)
        self._enter('rmdir', p)
        parent, name, node = self._parent(path)
        if node is None:
            raise _err(errno.ENOENT, p)
        if node.kind != 'd':
            raise _err(errno.ENOTDIR, p)
        if node.entries:
            raise _err(errno.ENOTEMPTY, p)
        self._mut(('unlink', parent.ino, name, self._now()))

    def unlink(self, path):
        p = os.fspath(path)
        self._enter('unlink', p)
        parent, name, node = self._parent(path)
        if node is None:
            raise _err(errno.ENOENT, p)
        if node.kind == 'd':
            raise _err(errno.EISDIR, p)
        if node.lock_owner is not None and self.sched is not None:
            me = self.sched._me()
            if me is not None and node.lock_owner.task != me.tid:
                # somebody removes a lock file that another task holds locked
                self.probes['unlink_of_file_flocked_by_other_task'] = self.probes.get('unlink_of_file_flocked_by_other_task', 0) + 1
        self._mut(('unlink', parent.ino, name, self._now()))

    def rename(self, src, dst):
        s, d = os.fspath(src), os.fspath(dst)
        self._enter('rename', (s, d))
        sparent, sname, snode = self._parent(src)
        if snode is None:
            raise _err(errno.ENOENT, s, d)
        dparent, dname, dnode = self._parent(dst)
        if snode.kind == 'd':
            # a directory cannot be moved into itself
            sc_, dc_ = self._split(src), self._split(dst)
            if len(dc_) > len(sc_) and dc_[:len(sc_)] == sc_:
                raise _err(errno.EINVAL, s, d)
        if dnode is not None:
            if dnode is snode:
                return
            if snode.kind == 'd':
                if dnode.kind != 'd':
                    raise _err(errno.ENOTDIR, s, d)
                if dnode.entries:
                    raise _err(errno.ENOTEMPTY, s, d)
            elif dnode.kind == 'd':
                raise _err(errno.EISDIR, s, d)
        self._mut(('rename', sparent.ino, sname, dparent.ino, dname, self._now()))

    def link(self, src, dst):
        s, d = os.fspath(src), os.fspath(dst)
        self._enter('link', (s, d))
        snode = self._resolve(src, follow=False)
        dparent, dname, dnode = self._parent(dst)
        if snode.kind == 'd':
            raise _err(errno.EPERM, s, d)
        if dnode is not None:
            raise _err(errno.EEXIST, s, d)
        self._mut(('link', dparent.ino, dname, snode.ino, self._now()))

    def symlink(self, target, dst):
        t, d = os.fspath(target), os.fspath(dst)
        self._enter('symlink', (t, d))
        dparent, dname, dnode = self._parent(dst)
        if dnode is not None:
            raise _err(errno.EEXIST, t, d)
        i = self._new_ino()
        now = self._now()
        self._mut(('mknod', i, 'l', 0o777, now, t))
        self._mut(('link', dparent.ino, dname, i, now))

    def readlink(self, path):
        p = os.fspath(path)
        self._enter('readlink', p)
        n = self._resolve(path, follow=False)
        if n.kind != 'l':
            raise _err(errno.EINVAL, p)
        return n.target

    def chmod(self, path, mode):
        p = os.fspath(path)
        self._enter('chmod', p)
        n = self._resolve(path)
        self._mut(('chmod', n.ino, mode & 0o7777))

    def utime(self, path, times=None):
        p = os.fspath(path)
        self._enter('utime', p)
        n = self._resolve(path)
        mt = self._now() if times is None else times[1]
        self._mut(('utime', n.ino, float(mt)))

    def access(self, path, mode):
        try:
            self._resolve(path)
            return True
        except OSError:
            return False

    def rmtree(self, path, ignore_errors=False):
        """stand-in for shutil.rmtree on simulated paths (stdlib code, not repo code)"""
        try:
            names = self.listdir(path)
        except OSError:
            if not ignore_errors:
                raise
            return
        for nm in names:
            child = os.path.join(os.fspath(path), nm)
            # (the real one takes the entry type from the directory listing; an entry that vanished meanwhile fails in the
            # unlink, and with ignore_errors the walk goes on with the next entry)
            try:
                st = self.stat(child, follow_symlinks=False)
            except OSError:
                if not ignore_errors:
                    raise
                continue
            if statmod.S_ISDIR(st.st_mode):
                self.rmtree(child, ignore_errors)
            else:
                try:
                    self.unlink(child)
                except OSError:
                    if not ignore_errors:
                        raise
        try:
            self.rmdir(path)
        except OSError:
            if not ignore_errors:
                raise

    # ------------------------------------------------------------------
    # descriptors
    def _ofd(self, fd):
        ent = self.fds.get(fd)
        if ent is None:
            if fd in self.dead_fds:
                raise SimCrash()    # descriptor of a killed process: nothing it does has an effect
            raise _err(errno.EBADF)
        return ent[0]

    def os_open(self, path, flags, mode=0o777):
        p = os.fspath(path)
        proc, _ = self._enter('open', p)
        acc = flags & os.O_ACCMODE
        readable = acc in (os.O_RDONLY, os.O_RDWR)
        writable = acc in (os.O_WRONLY, os.O_RDWR)
        excl = bool(flags & os.O_CREAT) and bool(flags & os.O_EXCL)
        # O_CREAT|O_EXCL never follows a symlink in the last component: an existing name (even a dangling link) is EEXIST
        parent, name, node = self._parent(path, follow_last=not (flags & os.O_NOFOLLOW) and not excl)
        if node is None:
            # might be a dangling symlink followed to a missing name: _walk returned the final parent
            if not (flags & os.O_CREAT):
                raise _err(errno.ENOENT, p)
            i = self._new_ino()
            now = self._now()
            self._mut(('mknod', i, 'f', mode & 0o644, now, None))
            self._mut(('link', parent.ino, name, i, now))
            node = self.inodes[i]
        else:
            if (flags & os.O_CREAT) and (flags & os.O_EXCL):
                raise _err(errno.EEXIST, p)
            if node.kind == 'd':
                if writable:
                    raise _err(errno.EISDIR, p)
                raise _err(errno.EISDIR, p)
            if (flags & os.O_TRUNC) and writable:
                # the kernel updates mtime on O_TRUNC even for an empty file
                self._mut(('trunc', node.ino, 0, self._now()))
        ofd = OFD(node, readable, writable, bool(flags & os.O_APPEND), proc, p)
        if self.sched is not None:
            me = self.sched._me()
            ofd.task = me.tid if me is not None else None
        node.opens += 1
        fd = self.next_fd
        self.next_fd += 1
        self.fds[fd] = (ofd, proc)
        if proc is not None:
            proc.fds[fd] = ofd
        return fd

    def fd_close(self, fd, quiet=False):
        ent = self.fds.get(fd)
        if ent is None:
            if quiet:
                return
            raise _err(errno.EBADF)
        ofd, proc = ent
        s = self.sched
        if s is not None:
            me = s._me()
            if me is not None:
                if s.aborting or me.proc.dead:
                    return          # a dead process cannot act; its fds were closed by the kill
                s.yield_point('fs-close', ofd.path)
                if self.fds.get(fd) is None:
                    return
        elif proc is not None and proc.dead:
            return
        self._drop_fd(fd)

    def _drop_fd(self, fd):
        ofd, proc = self.fds.pop(fd)
        if proc is not None:
            proc.fds.pop(fd, None)
        ofd.refs -= 1
        if ofd.refs == 0:
            ofd.closed = True
            ofd.inode.opens -= 1
            if ofd.inode.lock_owner is ofd:
                ofd.inode.lock_owner = None

    def kill_proc(self, proc):
        for fd in list(proc.fds.keys()):
            if fd in self.fds:
                self.dead_fds.add(fd)
                self._drop_fd(fd)

    def fd_read(self, fd, n):
        ofd = self._ofd(fd)
        self._enter('read', ofd.path)
        d = ofd.inode.data
        data = bytes(d[ofd.pos:ofd.pos + n])
        ofd.pos += len(data)
        return data

    def fd_write(self, fd, data):
        ofd = self._ofd(fd)
        proc, fault = self._enter('write', ofd.path)
        if not ofd.writable:
            raise _err(errno.EBADF)
        if fault is not None and fault[0] == 'short':
            data = data[:max(1, min(len(data), fault[1]))]
        if ofd.append:
            ofd.pos = len(ofd.inode.data)
        if data:
            self._mut(('write', ofd.inode.ino, ofd.pos, data, self._now()))
        ofd.pos += len(data)
        return len(data)

    def fd_pwrite(self, fd, data, offset):
        # positional write: goes straight to the file, whatever a buffered file object on the same descriptor still holds
        ofd = self._ofd(fd)
        proc, fault = self._enter('write', ofd.path)
        if not ofd.writable:
            raise _err(errno.EBADF)
        data = bytes(data)
        if fault is not None and fault[0] == 'short':
            data = data[:max(1, min(len(data), fault[1]))]
        if data:
            self._mut(('write', ofd.inode.ino, offset, data, self._now()))
        return len(data)

    def fd_pread(self, fd, n, offset):
        ofd = self._ofd(fd)
        self._enter('read', ofd.path)
        return bytes(ofd.inode.data[offset:offset + n])

    def fd_seek(self, fd, off, whence=0):
        ofd = self._ofd(fd)
        if whence == 0:
            pos = off
        elif whence == 1:
            pos = ofd.pos + off
        elif whence == 2:
            pos = len(ofd.inode.data) + off
        else:
            raise _err(errno.EINVAL)
        if pos < 0:
            raise _err(errno.EINVAL)
        ofd.pos = pos
        return pos

    def fd_truncate(self, fd, size):
        ofd = self._ofd(fd)
        self._enter('ftruncate', ofd.path)
        if not ofd.writable:
            raise _err(errno.EINVAL)
        if size != len(ofd.inode.data):
            self._mut(('trunc', ofd.inode.ino, size, self._now()))

    def fd_chmod(self, fd, mode):
        ofd = self._ofd(fd)
        self._enter('fchmod', ofd.path)
        self._mut(('chmod', ofd.inode.ino, mode & 0o7777))

    def fd_sync(self, fd):
        # everything in the journal counts as reaching the disk in order: fsync is a yield point only
        ofd = self._ofd(fd)
        self._enter('fsync', ofd.path)

    def flock(self, fd, flags):
        import fcntl
        ofd = self._ofd(fd)
        self._enter('flock', ofd.path)
        n = ofd.inode
        if n.nlink == 0:
            self.probes['flock_on_unlinked_inode'] = self.probes.get('flock_on_unlinked_inode', 0) + 1
        if flags & fcntl.LOCK_UN:
            if n.lock_owner is ofd:
                n.lock_owner = None
            return
        if n.lock_owner is None or n.lock_owner is ofd:
            n.lock_owner = ofd
            return
        if flags & fcntl.LOCK_NB:
            raise BlockingIOError(errno.EAGAIN, os.strerror(errno.EAGAIN))
        if self.sched is None or not self.sched.in_task():
            raise RuntimeError('blocking flock outside the simulation')
        self.sched.wait_until(lambda: n.lock_owner is None or ofd.closed, 'flock-wait', ofd.path)
        if ofd.closed:
            raise _err(errno.EBADF)
        n.lock_owner = ofd

    # ------------------------------------------------------------------
    # python-level open
    def open(self, file, mode='r', buffering=-1, encoding=None, errors=None, newline=None,
             closefd=True, opener=None):
        if isinstance(file, int):
            fd = file
            ofd = self._ofd(fd)
        else:
            fd = None
        m = set(mode)
        binary = 'b' in m
        plus = '+' in m
        if 'r' in m:
            flags = os.O_RDWR if plus else os.O_RDONLY
            readable, writable = True, plus
        elif 'w' in m:
            flags = (os.O_RDWR if plus else os.O_WRONLY) | os.O_CREAT | os.O_TRUNC
            readable, writable = plus, True
        elif 'a' in m:
            flags = (os.O_RDWR if plus else os.O_WRONLY) | os.O_CREAT | os.O_APPEND
            readable, writable = plus, True
        elif 'x' in m:
            flags = (os.O_RDWR if plus else os.O_WRONLY) | os.O_CREAT | os.O_EXCL
            readable, writable = plus, True
        else:
            raise ValueError('invalid mode %r' % mode)
        if fd is None:
            fd = self.os_open(file, flags, 0o666)
            ofd = self._ofd(fd)
        if 'a' in m:
            ofd.pos = len(ofd.inode.data)       # FileIO positions an append-mode file at its end
        rawmode = ('rb+' if plus else 'rb') if 'r' in m else (mode.replace('t', '') if binary else mode.replace('t', '') + 'b')
        raw = SimRaw(self, fd, ofd, rawmode, closefd, name=file if isinstance(file, int) else None)
        if buffering == 0:
            if not binary:
                raise ValueError("can't have unbuffered text I/O")
            return raw
        bs = self.buffer_size if buffering in (-1, 1) else buffering
        if readable and writable:
            buf = io.BufferedRandom(raw, bs)
        elif writable:
            buf = io.BufferedWriter(raw, bs)
        else:
            buf = io.BufferedReader(raw, bs)
        if binary:
            return buf
        text = io.TextIOWrapper(buf, encoding or 'utf-8', errors, newline, line_buffering=(buffering == 1))
        text.mode = mode
        return text

    # ------------------------------------------------------------------
    # harness conveniences (no yield, no faults)
    def tree(self, path=None, copy=True):
        """{relative path: bytes | ('l', target)} of all non-directories, plus dirs as None"""
        out = {}

        def rec(node, rel):
            for nm in sorted(node.entries):
                ch = self.inodes[node.entries[nm]]
                r = rel + '/' + nm
                if ch.kind == 'd':
                    out[r] = None
                    rec(ch, r)
                elif ch.kind == 'l':
                    out[r] = ('l', ch.target)
                else:
                    out[r] = bytes(ch.data) if copy else ch.data
        start = self.inodes[1] if path is None else self._resolve(path)
        rec(start, '' if path is None else os.fspath(path)[len(self.prefix):].rstrip('/'))
        return out

    def read_file(self, path):
        return bytes(self._resolve(path).data)

    def exists(self, path, follow=True):
        try:
            self._resolve(path, follow)
            return True
        except OSError:
            return False
