"""Choice tape: the single source of every decision taken in a simulated run.

Record mode: values come from random.Random(seed) and are appended to .log.
Replay mode: values come from a list; when the list is exhausted or a value
is out of range the answer is 0 (= "keep running the current task", "no
fault", "first alternative"), which is what makes tape shrinking possible.

Logging never draws from the tape.
"""
import random


class Tape(object):
    __slots__ = ('rng', 'values', 'pos', 'log', 'replay')

    def __init__(self, seed=None, values=None):
        if values is not None:
            self.replay = True
            self.values = list(values)
            self.rng = None
        else:
            self.replay = False
            self.values = None
            self.rng = random.Random(seed)
        self.pos = 0
        self.log = []

    # -- primitives -----------------------------------------------------
    def choice(self, n, tag=''):
        """integer in [0, n)"""
        if n <= 1:
            return 0
        if self.replay:
            if self.pos < len(self.values):
                v = self.values[self.pos]
                self.pos += 1
                if not (0 <= v < n):
                    v = 0
            else:
                self.pos += 1
                v = 0
        else:
            v = self.rng.randrange(n)
        self.log.append(v)
        return v

    def chance(self, p, tag=''):
        """True with probability p (recorded as 1/0; replay default False)"""
        if p <= 0:
            return False
        if self.replay:
            if self.pos < len(self.values):
                v = 1 if self.values[self.pos] else 0
            else:
                v = 0
            self.pos += 1
        else:
            v = 1 if self.rng.random() < p else 0
        self.log.append(v)
        return bool(v)

    def pick(self, seq, tag=''):
        return seq[self.choice(len(seq), tag)]

    def randint(self, lo, hi, tag=''):
        return lo + self.choice(hi - lo + 1, tag)

    def weighted(self, pairs, tag=''):
        """pairs: [(item, weight int)]; value 0 maps to the first item"""
        total = sum(w for _, w in pairs)
        v = self.choice(total, tag)
        for item, w in pairs:
            if v < w:
                return item
            v -= w
        return pairs[-1][0]

    def fork_seed(self, tag=''):
        """a 30 bit integer to seed a sub-generator"""
        return self.choice(1 << 30, tag)
