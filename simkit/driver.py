"""Batch driver: seeded search over many short simulated runs, minimisation,
replay files, known-findings handling and evidence writing.

A check module provides:
  PROP, LEVEL, RULE, COMPONENTS, ASSUMPTIONS, DESIGN_REF
  gen(tape, tier) -> scenario (JSON-able dict)
  run(scenario, tape) -> result dict:
       violation: None | {'sig': str, 'msg': str}
       digest: str           (hash of the event log - determinism / distinctness)
       nontrivial: bool      (per RULE)
       steps, sim_time: numbers;  faults, probes: {name: count};  unspecified: int
       sample: small JSON-able trace (optional)
  shrink(scenario) -> iterable of simpler scenarios (optional)
  BUDGET = {'quick': seconds, 'thorough': seconds}
"""
import concurrent.futures as cf
import faulthandler
import hashlib
import json
import multiprocessing
import os
import queue
import subprocess
import sys
import time
import traceback

from .tape import Tape

VERIF = os.path.dirname(os.path.dirname(os.path.abspath(__file__)))
REAL_TIME = time.time          # captured before any World patches
REAL_MONO = time.monotonic


def case_seed(base_seed, index):
    h = hashlib.sha256(('%d:%d' % (base_seed, index)).encode()).digest()
    return int.from_bytes(h[:6], 'big')


def ensure_env():
    """re-exec with a fixed hash seed so that set/dict iteration cannot leak into traces"""
    if os.environ.get('PYTHONHASHSEED') is None:
        env = dict(os.environ)
        env['PYTHONHASHSEED'] = '0'
        env.setdefault('TZ', 'UTC')
        os.execve(sys.executable, [sys.executable] + sys.argv, env)
    os.environ.setdefault('TZ', 'UTC')
    time.tzset()
    repo = os.environ.get('VERIF_REPO', '/repo')
    import mapproxy
    mp = os.path.realpath(os.path.dirname(mapproxy.__file__))
    want = os.path.realpath(os.path.join(repo, 'mapproxy'))
    if mp != want:
        print('HARNESS-ERROR mapproxy imported from %s, expected %s' % (mp, want))
        sys.exit(2)
    import logging
    logging.disable(logging.CRITICAL)


def _blame(exc):
    """an exception that escaped check.run(): None if the harness is to blame, else the mapproxy function it came out of.
    It is the code under test's exception when it passed through mapproxy frames, no frame of a check lies below the
    innermost mapproxy frame (a stub called by mapproxy that blew up is a harness error), and frames of the simulator
    below it only ever raise OSError or queue.Empty/Full (a simulated errno or an empty simulated queue is part of the
    environment; anything else is a simulator bug)."""
    import mapproxy
    mp = os.path.realpath(os.path.dirname(mapproxy.__file__)) + os.sep
    here = os.path.realpath(os.path.dirname(os.path.dirname(os.path.abspath(__file__)))) + os.sep
    frames = traceback.extract_tb(exc.__traceback__)
    last_mp = None
    for i, fr in enumerate(frames):
        if os.path.realpath(fr.filename).startswith(mp) and os.sep + 'test' + os.sep not in fr.filename:
            last_mp = i
    if last_mp is None:
        return None
    for fr in frames[last_mp + 1:]:
        fn = os.path.realpath(fr.filename)
        if fn.startswith(here + 'checks' + os.sep):
            return None
        if fn.startswith(here + 'simkit' + os.sep) and not isinstance(exc, (OSError, queue.Empty, queue.Full)):
            return None
    fr = frames[last_mp]
    return '%s:%s' % (os.path.basename(fr.filename), fr.name)


def run_one(check, sc, tape):
    """returns (result, error_text_or_None)"""
    try:
        res = check.run(sc, tape)
        return res, None
    except Exception as exc:
        where = None
        try:
            where = _blame(exc)
        except Exception:    # noqa
            pass
        if where is None:
            return None, traceback.format_exc()
        # the code under test raised something no oracle of the check expected: a verdict, not a harness error
        return {'violation': {'sig': '%s:unexpected-exception:%s:%s' % (check.PROP, type(exc).__name__, where),
                              'msg': 'the code under test raised %r\n%s' % (exc, ''.join(traceback.format_tb(exc.__traceback__)[-6:]))},
                'digest': 'exc:%s:%s' % (type(exc).__name__, where), 'nontrivial': False, 'steps': 0, 'sim_time': 0.0,
                'faults': {}, 'probes': {'unexpected_exceptions': 1}}, None
    except BaseException:    # noqa - harness error, never a verdict
        return None, traceback.format_exc()


def _merge_counts(dst, src):
    for k, v in (src or {}).items():
        dst[k] = dst.get(k, 0) + v


class CaseWallTimeout(BaseException):
    """one case ran for more than CASE_WALL_S seconds of real time (the code under test hangs or crawls): a harness error
    for that case - the verdicts of the other cases are still reported"""


CASE_WALL_S = float(os.environ.get('VERIF_CASE_WALL_S', '180'))


def _on_alarm(signum, frame):
    raise CaseWallTimeout('case exceeded %.0f s of wall time' % CASE_WALL_S)


def _chunk(args):
    modname, base_seed, start, count, tier, deadline, extra = args
    import signal
    faulthandler.enable()
    faulthandler.dump_traceback_later(600 + count * 5, exit=True)
    signal.signal(signal.SIGALRM, _on_alarm)
    check = __import__(modname, fromlist=['x'])
    if extra:
        check.configure(extra)
    agg = {'runs': 0, 'evals': 0, 'nontrivial': 0, 'steps': 0, 'sim_time': 0.0, 'faults': {}, 'probes': {},
           'unspecified': 0, 'digests': set(), 'ntkeys': set(), 'violations': [], 'errors': [], 'samples': [],
           'first': start, 'last': start}
    for i in range(start, start + count):
        if REAL_MONO() > deadline:
            break
        cs = case_seed(base_seed, i)
        sc = check.gen(Tape(cs * 2), tier)
        tape = Tape(cs * 2 + 1)
        signal.setitimer(signal.ITIMER_REAL, CASE_WALL_S)
        try:
            res, err = run_one(check, sc, tape)
        finally:
            signal.setitimer(signal.ITIMER_REAL, 0)
        agg['runs'] += 1
        agg['last'] = i
        if err is not None:
            if len(agg['errors']) < 3:
                agg['errors'].append({'case': i, 'error': err, 'scenario': sc})
            if 'CaseWallTimeout' in err:
                break       # whatever still runs in this process is in an unknown state: hand back what there is
            continue
        agg['steps'] += res.get('steps', 0)
        agg['sim_time'] += res.get('sim_time', 0.0)
        agg['unspecified'] += res.get('unspecified', 0)
        _merge_counts(agg['faults'], res.get('faults'))
        _merge_counts(agg['probes'], res.get('probes'))
        d = res.get('digest')
        agg['evals'] += res.get('evals', 1)
        if d is not None:
            agg['digests'].add(d)
            if res.get('nontrivial'):
                agg['nontrivial'] += 1
                if res.get('dkeys') is not None:
                    agg['ntkeys'].update(res['dkeys'])
                else:
                    agg['ntkeys'].add(d)
        if res.get('sample') is not None and len(agg['samples']) < 2 and res.get('nontrivial'):
            agg['samples'].append({'case': i, 'scenario': sc, 'trace': res['sample']})
        v = res.get('violation')
        if v is not None:
            sigs = set(x['sig'] for x in agg['violations'])
            if v['sig'] not in sigs and len(agg['violations']) < 4:
                agg['violations'].append({'case': i, 'sig': v['sig'], 'msg': v['msg'], 'scenario': sc,
                                          'tape': list(tape.log), 'digest': d})
            agg.setdefault('vcount', 0)
            agg['vcount'] = agg.get('vcount', 0) + 1
    faulthandler.cancel_dump_traceback_later()
    return agg


# ----------------------------------------------------------------------
# minimisation

def _reproduces(check, sc, values, sig):
    tape = Tape(values=values)
    res, err = run_one(check, sc, tape)
    if err is not None or res is None:
        return None
    v = res.get('violation')
    if v is not None and v['sig'] == sig:
        return tape.log[:tape.pos] if False else list(tape.log), res
    return None


def minimise(check, sc, values, sig, budget=60.0):
    t_end = REAL_MONO() + budget
    best_sc, best_vals = sc, list(values)
    r = _reproduces(check, best_sc, best_vals, sig)
    if r is None:
        return best_sc, best_vals, False
    best_vals = r[0]
    improved = True
    rounds = 0
    while improved and REAL_MONO() < t_end:
        improved = False
        rounds += 1
        # 1. scenario shrinking
        if hasattr(check, 'shrink'):
            progress = True
            while progress and REAL_MONO() < t_end:
                progress = False
                for cand in check.shrink(best_sc):
                    if REAL_MONO() > t_end:
                        break
                    r = _reproduces(check, cand, best_vals, sig)
                    if r is not None:
                        best_sc, best_vals = cand, r[0]
                        progress = improved = True
                        break
        # 2. tape: truncate tail
        lo, hi = 0, len(best_vals)
        while lo < hi and REAL_MONO() < t_end:
            mid = (lo + hi) // 2
            r = _reproduces(check, best_sc, best_vals[:mid], sig)
            if r is not None:
                hi = mid
            else:
                lo = mid + 1
        if hi < len(best_vals):
            r = _reproduces(check, best_sc, best_vals[:hi], sig)
            if r is not None:
                best_vals = best_vals[:hi]
                improved = True
        # strip trailing zeros (replay default is 0 anyway)
        while best_vals and best_vals[-1] == 0:
            best_vals.pop()
        # 3. tape: zero / delete blocks
        size = 8
        while size >= 1 and REAL_MONO() < t_end:
            i = 0
            while i < len(best_vals) and REAL_MONO() < t_end:
                blk = best_vals[i:i + size]
                if any(blk):
                    cand = best_vals[:i] + [0] * len(blk) + best_vals[i + size:]
                    r = _reproduces(check, best_sc, cand, sig)
                    if r is not None:
                        best_vals = cand
                        improved = True
                    else:
                        cand = best_vals[:i] + best_vals[i + size:]
                        r = _reproduces(check, best_sc, cand, sig)
                        if r is not None:
                            best_vals = cand
                            improved = True
                            continue
                i += size
            size //= 2
        while best_vals and best_vals[-1] == 0:
            best_vals.pop()
        if rounds >= 4:
            break
    return best_sc, best_vals, True


# ----------------------------------------------------------------------

def load_known():
    p = os.path.join(VERIF, 'known_findings.json')
    if not os.path.exists(p):
        return {'findings': [], 'fixed': []}
    with open(p) as f:
        return json.load(f)


def known_match(known, prop, sig):
    for k in known.get('findings', []):
        if k['property'] == prop and k['signature'] == sig:
            return k
    return None


def write_replay(check, sc, values, sig, msg, digest, seed, case, tier):
    d = os.path.join(VERIF, 'replays')
    os.makedirs(d, exist_ok=True)
    h = hashlib.sha1((sig + json.dumps(sc, sort_keys=True) + repr(values)).encode()).hexdigest()[:10]
    path = os.path.join(d, '%s-%s-%s.json' % (check.PROP, seed, h))
    with open(path, 'w') as f:
        json.dump({'property': check.PROP, 'check_version': getattr(check, 'VERSION', 1), 'tier': tier,
                   'seed': seed, 'case': case, 'signature': sig, 'message': msg, 'digest': digest,
                   'scenario': sc, 'tape': values}, f, indent=1, sort_keys=True)
    return path


def replay(check, path):
    with open(path) as f:
        rep = json.load(f)
    if rep.get('configure'):
        check.configure(rep['configure'])
    tape = Tape(values=rep['tape'])
    res, err = run_one(check, rep['scenario'], tape)
    if err is not None:
        print('HARNESS-ERROR during replay\n' + err)
        return 2
    v = res.get('violation')
    print('replay digest=%s recorded=%s' % (res.get('digest'), rep.get('digest')))
    if v is None:
        print('replay: no violation reproduced (recorded: %s)' % rep['signature'])
        return 0
    print('signature: %s' % v['sig'])
    print('message: %s' % v['msg'])
    if res.get('sample') is not None:
        print('trace: %s' % json.dumps(res['sample'])[:4000])
    same = v['sig'] == rep['signature'] and res.get('digest') == rep.get('digest')
    print('VIOLATION property=%s replay=%s%s' % (check.PROP, path, '' if same else ' (signature/digest differs from recording)'))
    return 1


def main(check, argv=None):
    ensure_env()
    import argparse
    ap = argparse.ArgumentParser()
    ap.add_argument('--tier', default=os.environ.get('VERIF_TIER', 'quick'))
    ap.add_argument('--replay')
    ap.add_argument('--seed', type=int, default=int(os.environ.get('VERIF_SEED', '0')))
    ap.add_argument('--budget', type=float)
    ap.add_argument('--cases', type=int)
    ap.add_argument('--workers', type=int, default=int(os.environ.get('VERIF_WORKERS', '16')))
    ap.add_argument('--no-evidence', action='store_true')
    ap.add_argument('--digests', action='store_true', help='print per-case digests (determinism self-test)')
    ap.add_argument('--start', type=int, default=0)
    ap.add_argument('--config', help='JSON passed to check.configure')
    args = ap.parse_args(argv)

    if args.replay:
        sys.exit(replay(check, args.replay))

    extra = json.loads(args.config) if args.config else None
    if extra:
        check.configure(extra)
    tier = args.tier
    seed = args.seed
    budget = args.budget if args.budget is not None else check.BUDGET[tier]
    t0 = REAL_MONO()
    deadline = t0 + budget
    modname = check.__name__

    if args.digests:
        # sequential, deterministic number of cases: print digest per case
        n = args.cases or 50
        for i in range(args.start, args.start + n):
            cs = case_seed(seed, i)
            sc = check.gen(Tape(cs * 2), tier)
            res, err = run_one(check, sc, Tape(cs * 2 + 1))
            if err:
                print(i, 'ERROR', err.strip().splitlines()[-1])
            else:
                print(i, res.get('digest'), (res.get('violation') or {}).get('sig'))
        return 0

    chunk = getattr(check, 'CHUNK', {}).get(tier, 40)
    total = {'runs': 0, 'evals': 0, 'nontrivial': 0, 'steps': 0, 'sim_time': 0.0, 'faults': {}, 'probes': {},
             'unspecified': 0, 'digests': set(), 'ntkeys': set(), 'violations': [], 'errors': [], 'samples': [],
             'vcount': 0}
    next_index = args.start
    max_cases = args.cases
    known = load_known()
    ctx = multiprocessing.get_context('fork')
    workers = max(1, args.workers)
    pending = set()
    with cf.ProcessPoolExecutor(max_workers=workers, mp_context=ctx) as ex:
        def submit():
            nonlocal next_index
            if max_cases is not None and next_index >= args.start + max_cases:
                return False
            cnt = chunk if max_cases is None else min(chunk, args.start + max_cases - next_index)
            pending.add(ex.submit(_chunk, (modname, seed, next_index, cnt, tier, deadline, extra)))
            next_index += cnt
            return True
        for _ in range(workers * 2):
            if not submit():
                break
        while pending:
            done, _ = cf.wait(pending, timeout=budget + 900, return_when=cf.FIRST_COMPLETED)
            if not done:
                print('HARNESS-ERROR worker wall time-out')
                os._exit(2)
            for fut in done:
                pending.discard(fut)
                try:
                    agg = fut.result()
                except BaseException as e:   # noqa
                    print('HARNESS-ERROR worker died: %r' % (e,))
                    os._exit(2)
                for k in ('runs', 'evals', 'nontrivial', 'steps', 'sim_time', 'unspecified'):
                    total[k] += agg[k]
                total['vcount'] += agg.get('vcount', 0)
                _merge_counts(total['faults'], agg['faults'])
                _merge_counts(total['probes'], agg['probes'])
                total['digests'] |= agg['digests']
                total['ntkeys'] |= agg['ntkeys']
                if len(total['samples']) < 3:
                    total['samples'].extend(agg['samples'][:1])
                have = set(v['sig'] for v in total['violations'])
                for v in agg['violations']:
                    if v['sig'] not in have and len(total['violations']) < 6:
                        total['violations'].append(v)
                        have.add(v['sig'])
                total['errors'].extend(agg['errors'])
                # stop early when violations were found (quick) - they need time to minimise
                unlisted = [x for x in total['violations'] if known_match(known, check.PROP, x['sig']) is None]
                if REAL_MONO() < deadline and not total['errors'] and \
                        not (unlisted and tier == 'quick' and total['runs'] > 200):
                    submit()
    wall_search = REAL_MONO() - t0

    exit_code = 0
    if total['errors']:
        e = total['errors'][0]
        print('HARNESS-ERROR in case %s:\n%s' % (e['case'], e['error']))
        print('scenario: %s' % json.dumps(e['scenario'])[:2000])
        exit_code = 2

    reported = []
    known_lines = []
    for v in total['violations']:
        k = known_match(known, check.PROP, v['sig'])
        if k is not None:
            # a listed finding: reported as such, never minimised, never an alarm
            known_lines.append('KNOWN-FINDING: property=%s %s' % (check.PROP, k['what']))
            continue
        sc, vals, ok = minimise(check, v['scenario'], v['tape'], v['sig'],
                                budget=float(os.environ.get('VERIF_SHRINK_S', '45')))
        r = _reproduces(check, sc, vals, v['sig'])
        digest = r[1].get('digest') if r else v.get('digest')
        msg = r[1]['violation']['msg'] if r else v['msg']
        path = write_replay(check, sc, vals, v['sig'], msg, digest, seed, v['case'], tier)
        if extra:
            with open(path) as f:
                rep = json.load(f)
            rep['configure'] = extra
            with open(path, 'w') as f:
                json.dump(rep, f, indent=1, sort_keys=True)
        # replay once more in a fresh interpreter
        fresh = subprocess.run([sys.executable, sys.argv[0], '--replay', path], capture_output=True, text=True,
                               timeout=300)
        fresh_ok = fresh.returncode == 1 and 'differs from recording' not in fresh.stdout
        if k is not None:
            known_lines.append('KNOWN-FINDING: property=%s %s' % (check.PROP, k['what']))
            continue
        print('violation: %s' % v['sig'])
        print('  %s' % msg)
        print('  minimised: %d tape values, scenario %s' % (len(vals), json.dumps(sc)[:600]))
        if not fresh_ok:
            print('  WARNING: fresh-interpreter replay did not reproduce identically (rc=%s)' % fresh.returncode)
        print('VIOLATION property=%s replay=%s' % (check.PROP, path))
        reported.append(v['sig'])
        exit_code = 1       # a violation decides the exit code, also when another case ended in a harness error
    for line in sorted(set(known_lines)):
        print(line)

    wall = REAL_MONO() - t0
    if not args.no_evidence:
        ev = {
            'property_id': check.PROP,
            'tier': tier if tier in ('quick', 'thorough') else 'quick',
            'seed': seed,
            'level': check.LEVEL,
            'wall_s': round(wall, 2),
            'violations': len(reported),
            'assumptions': list(check.ASSUMPTIONS),
            'coverage': {
                'evaluations': total['evals'],
                'distinct_nontrivial': len(total['ntkeys']),
                'rule': check.RULE,
                'samples': total['samples'][:3] or [{'note': 'no non-trivial sample captured'}],
                'runs': total['runs'],
                'nontrivial_runs': total['nontrivial'],
                'case_index_range': [args.start, next_index - 1],
                'runs_per_hour': int(total['runs'] / max(wall_search, 1e-6) * 3600),
                'sim_time_s': round(total['sim_time'], 3),
                'scheduler_steps': total['steps'],
                'distinct_interleavings': len(total['digests']),
                'faults_fired': dict(sorted(total['faults'].items())),
                'probes': dict(sorted(total['probes'].items())),
                'unspecified_cases': total['unspecified'],
                'violating_runs': total['vcount'],
                'known_findings_seen': sorted(set(known_lines)),
                'components': check.COMPONENTS,
                'workers': workers,
                'exhaustive': False,
            },
        }
        if hasattr(check, 'evidence_extra'):
            ev['coverage'].update(check.evidence_extra(total))
        os.makedirs(os.path.join(VERIF, 'evidence'), exist_ok=True)
        with open(os.path.join(VERIF, 'evidence', check.PROP + '.json'), 'w') as f:
            json.dump(ev, f, indent=1, sort_keys=True)
    dset = hashlib.sha1(','.join(sorted(total['digests'])).encode()).hexdigest()[:12]
    print('%s %s: runs=%d nontrivial=%d distinct=%d steps=%d violations=%d known=%d wall=%.1fs dset=%s' % (
        check.PROP, tier, total['runs'], total['nontrivial'], len(total['digests']), total['steps'],
        len(reported), len(set(known_lines)), wall, dset))
    sys.exit(exit_code)
