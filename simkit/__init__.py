"""simkit - deterministic simulation kit for mapproxy (see /verif/DESIGN.md)"""
import os
import sys

# VERIF_REPO lets the checks run against a scratch copy of the repository (mutant runs);
# default is the editable install of /repo.
_repo = os.environ.get('VERIF_REPO')
if _repo and os.path.realpath(_repo) != os.path.realpath('/repo'):
    sys.path.insert(0, _repo)
