#!/bin/sh
# offline setup: nothing to build or download; verify the interpreter, the editable install and the kit
set -e
cd "$(dirname "$0")"
/venv/bin/python -B -c "
import sys, os
sys.path.insert(0, '.')
import mapproxy, PIL, shapely
assert os.path.realpath(os.path.dirname(mapproxy.__file__)) == os.path.realpath(os.environ.get('VERIF_REPO', '/repo') + '/mapproxy'), mapproxy.__file__
import simkit.tape, simkit.sched, simkit.fs, simkit.world, simkit.driver
print('setup ok: python %s, mapproxy from %s' % (sys.version.split()[0], os.path.dirname(mapproxy.__file__)))
"
mkdir -p evidence replays
