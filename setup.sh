#!/bin/sh
# offline setup: nothing to build or download; verify the interpreter, the editable install and the kit,
# then run the short form of the machinery self-tests (DESIGN.md section 15)
set -e
cd "$(dirname "$0")"
/venv/bin/python -B -c "
import sys, os
sys.path.insert(0, '.')
import mapproxy, PIL, shapely, numpy
assert os.path.realpath(os.path.dirname(mapproxy.__file__)) == os.path.realpath(os.environ.get('VERIF_REPO', '/repo') + '/mapproxy'), mapproxy.__file__
import simkit.tape, simkit.sched, simkit.fs, simkit.world, simkit.driver
print('setup ok: python %s, mapproxy from %s' % (sys.version.split()[0], os.path.dirname(mapproxy.__file__)))
"
mkdir -p evidence replays
/venv/bin/python -B selftest/simfs_fidelity.py 300 0 2>&1 | tail -1
for id in C07 C15; do
  a=$(./check $id --cases 60 --budget 120 --workers 8 --no-evidence 2>/dev/null | grep -o 'dset=[0-9a-f]*')
  b=$(PYTHONHASHSEED=7 ./check $id --cases 60 --budget 120 --workers 3 --no-evidence 2>/dev/null | grep -o 'dset=[0-9a-f]*')
  [ -n "$a" ] && [ "$a" = "$b" ] && echo "determinism $id ok ($a)" || { echo "determinism $id MISMATCH $a $b"; exit 1; }
done
