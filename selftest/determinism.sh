#!/bin/sh
# Determinism self-test: the same cases must produce the same event-log digests
#  - in two fresh interpreters, - under another PYTHONHASHSEED, - with 1 and 16 worker processes.
# usage: selftest/determinism.sh [cases-per-check]   (default 120)
cd "$(dirname "$0")/.."
n=${1:-120}
rc=0
for id in C05 C06 C07 C08 C11 C12 C13 C15 C19 C20; do
  a=$(./check $id --cases $n --budget 600 --workers 16 --no-evidence 2>/dev/null | grep -o 'dset=[0-9a-f]*')
  b=$(PYTHONHASHSEED=7 ./check $id --cases $n --budget 600 --workers 3 --no-evidence 2>/dev/null | grep -o 'dset=[0-9a-f]*')
  c=$(./check $id --digests --cases 25 2>/dev/null | md5sum | cut -c1-12)
  d=$(PYTHONHASHSEED=3 ./check $id --digests --cases 25 2>/dev/null | md5sum | cut -c1-12)
  if [ -n "$a" ] && [ "$a" = "$b" ] && [ "$c" = "$d" ]; then echo "determinism $id ok ($n cases: $a; 25 sequential: $c)"; else echo "determinism $id MISMATCH: $a / $b ; $c / $d"; rc=1; fi
done
exit $rc
