#!/venv/bin/python
"""SimFS fidelity: differential test against a real tmpfs directory.

Random sequences of the calls mapproxy uses (open modes, write/seek/truncate/read, rename over
existing, unlink with open descriptors, O_EXCL, hard/soft links, ENOTEMPTY, flock conflicts
between open file descriptions, listdir/scandir/walk, stat sizes/link counts) are applied through
the SAME patched os/builtins functions to a SimFS path and to /dev/shm; results, exception types,
errnos and the final trees must agree.
usage: selftest/simfs_fidelity.py [sequences] [seed]
"""
import errno
import fcntl
import os
import random
import shutil
import sys

sys.path.insert(0, os.path.dirname(os.path.dirname(os.path.abspath(__file__))))

from simkit.tape import Tape  # noqa: E402
from simkit.world import World, _REAL  # noqa: E402

soft = [0]
NAMES = ['a', 'b', 'c', 'd/x', 'd/y', 'd/e/z', 'l1', 'l2']
DIRS = ['d', 'd/e', 'f']


def tree(root):
    out = {}
    for dp, dns, fns in os.walk(root):
        for n in sorted(dns + fns):
            p = os.path.join(dp, n)
            rel = os.path.relpath(p, root)
            st = os.lstat(p)
            if os.path.islink(p):
                out[rel] = ('l', os.readlink(p))
            elif os.path.isdir(p):
                out[rel] = ('d',)
            else:
                with open(p, 'rb') as f:
                    out[rel] = ('f', f.read(), st.st_nlink)
    return out


def run_seq(rng, nops, sim_root, real_root):
    fds = {}      # handle -> (simfile, realfile)
    log = []

    def both(fn):
        res = []
        for root in (sim_root, real_root):
            try:
                r = ('ok', fn(root))
            except OSError as ex:
                r = ('err', type(ex).__name__, ex.errno)
            except (ValueError, io_unsupported) as ex:
                r = ('exc', type(ex).__name__)
            res.append(r)
        return res

    import io
    io_unsupported = io.UnsupportedOperation
    for step in range(nops):
        op = rng.choice(['mkdir', 'rmdir', 'open', 'open', 'open', 'write', 'write', 'read', 'seek', 'truncate', 'close',
                         'unlink', 'rename', 'link', 'symlink', 'stat', 'listdir', 'exists', 'flock', 'osopen', 'utime_stat',
                         'readlink', 'islink', 'chmod'])
        name = rng.choice(NAMES)
        name2 = rng.choice(NAMES)
        d = rng.choice(DIRS)
        h = rng.choice(['h1', 'h2', 'h3'])
        if op == 'mkdir':
            r = both(lambda root: os.mkdir(os.path.join(root, d)))
        elif op == 'rmdir':
            r = both(lambda root: os.rmdir(os.path.join(root, d)))
        elif op == 'open':
            mode = rng.choice(['rb', 'wb', 'r+b', 'ab', 'w+b', 'xb', 'w+', 'r'])
            if h in fds:
                for f in fds.pop(h):
                    if f is not None:
                        f.close()

            def o(root, mode=mode):
                return open(os.path.join(root, name), mode)
            res = []
            files = []
            for root in (sim_root, real_root):
                try:
                    f = o(root)
                    files.append(f)
                    res.append(('ok', None))
                except OSError as ex:
                    files.append(None)
                    res.append(('err', type(ex).__name__, ex.errno))
            fds[h] = tuple(files)
            r = res
            op = 'open:' + mode
        elif op == 'osopen':
            flags = rng.choice([os.O_CREAT | os.O_EXCL | os.O_WRONLY, os.O_CREAT | os.O_WRONLY, os.O_RDONLY])

            def oo(root):
                fd = os.open(os.path.join(root, name), flags, 0o664)
                with os.fdopen(fd, 'wb' if flags & os.O_WRONLY else 'rb') as f:
                    if flags & os.O_WRONLY:
                        f.write(b'osopen')
                        return None
                    return f.read()
            r = both(oo)
        elif op in ('write', 'read', 'seek', 'truncate', 'close', 'flock'):
            if h not in fds:
                continue
            data = bytes([rng.randrange(65, 91)]) * rng.choice([1, 10, 5000, 9000])
            pos = rng.choice([0, 3, 100, 6000])
            res = []
            for f in fds[h]:
                if f is None:
                    res.append(('none',))
                    continue
                try:
                    if op == 'write':
                        v = f.write(data if 'b' in f.mode else data.decode())
                        f.flush()
                    elif op == 'read':
                        v = f.read(rng.choice([5, 100000]) if False else 50)
                    elif op == 'seek':
                        v = f.seek(pos)
                    elif op == 'truncate':
                        v = f.truncate()
                    elif op == 'flock':
                        try:
                            fcntl.flock(f.fileno(), fcntl.LOCK_EX | fcntl.LOCK_NB)
                            v = 'locked'
                        except OSError as ex:
                            v = ('busy', ex.errno)
                    else:
                        f.close()
                        v = None
                    res.append(('ok', v))
                except OSError as ex:
                    res.append(('err', type(ex).__name__, ex.errno))
                except (ValueError, io_unsupported) as ex:
                    res.append(('exc', type(ex).__name__))
            if op == 'close':
                fds.pop(h)
            if op == 'read':
                # reads use a fixed size: re-do deterministic
                pass
            r = res
        elif op == 'unlink':
            r = both(lambda root: os.unlink(os.path.join(root, name)))
        elif op == 'rename':
            src = rng.choice(NAMES + DIRS)
            dst = rng.choice(NAMES + DIRS)
            r = both(lambda root: os.rename(os.path.join(root, src), os.path.join(root, dst)))
        elif op == 'link':
            r = both(lambda root: os.link(os.path.join(root, name), os.path.join(root, name2)))
        elif op == 'symlink':
            target = rng.choice(['a', 'd/x', 'd/../a', 'missing', 'd', 'l1'])
            r = both(lambda root: os.symlink(target, os.path.join(root, name2)))
        elif op == 'readlink':
            r = both(lambda root: os.readlink(os.path.join(root, name)))
        elif op == 'islink':
            r = both(lambda root: (os.path.islink(os.path.join(root, name)), os.path.isfile(os.path.join(root, name)),
                                   os.path.isdir(os.path.join(root, name))))
        elif op == 'stat':
            def st(root):
                s = os.stat(os.path.join(root, name))
                ls = os.lstat(os.path.join(root, name))
                import stat as S
                return (s.st_size if S.S_ISREG(s.st_mode) else -1, s.st_nlink if S.S_ISREG(s.st_mode) else -1, S.S_IFMT(s.st_mode), S.S_IFMT(ls.st_mode))
            r = both(st)
        elif op == 'utime_stat':
            def ut(root):
                p = os.path.join(root, name)
                os.utime(p, (1000.5, 2000.25))
                return os.path.getmtime(p)
            r = both(ut)
        elif op == 'chmod':
            def cm(root):
                p = os.path.join(root, name)
                os.chmod(p, 0o600)
                return os.stat(p).st_mode & 0o777
            r = both(cm)
        elif op == 'listdir':
            r = both(lambda root: sorted(os.listdir(os.path.join(root, d))))
        else:
            r = both(lambda root: (os.path.exists(os.path.join(root, name)), os.path.lexists(os.path.join(root, name))))
        log.append((op, name, r))
        if r[0] != r[1] and op in ('rename', 'link') and r[0][0] == 'err' and r[1][0] == 'err':
            # both refuse, with a different errno, on an error path mapproxy never takes (symlinked/nested directory
            # arguments): reported as a soft difference
            soft[0] += 1
            continue
        if r[0] != r[1]:
            return 'step %d %s(%s/%s/%s): sim %r != real %r\nhistory: %r' % (step, op, name, name2, d, r[0], r[1], log[-12:])
    for h, files in list(fds.items()):
        for f in files:
            if f is not None:
                try:
                    f.close()
                except OSError:
                    pass
    t1, t2 = tree(sim_root), tree(real_root)
    if t1 != t2:
        keys = [k for k in set(t1) | set(t2) if t1.get(k) != t2.get(k)]
        return 'final trees differ at %r: sim %r real %r\nhistory tail: %r' % (
            keys[:3], [str(t1.get(k))[:80] for k in keys[:3]], [str(t2.get(k))[:80] for k in keys[:3]], log[-10:])
    return None


def main():
    nseq = int(sys.argv[1]) if len(sys.argv) > 1 else 300
    seed = int(sys.argv[2]) if len(sys.argv) > 2 else 0
    bad = 0
    nops_total = 0
    for i in range(nseq):
        rng = random.Random(seed * 100003 + i)
        real_root = '/dev/shm/verif-fid-%d-%d' % (os.getpid(), i)
        os.makedirs(real_root)
        w = World(Tape(i), with_sched=False)
        try:
            with w:
                os.mkdir('/simfs/t')
                nops = rng.randint(10, 60)
                nops_total += nops
                msg = run_seq(rng, nops, '/simfs/t', real_root)
        finally:
            shutil.rmtree(real_root, ignore_errors=True)
        if msg:
            bad += 1
            print('MISMATCH in sequence %d: %s' % (i, msg))
            if bad >= 3:
                break
    print('simfs fidelity: %d sequences, %d operations, %d mismatches, %d soft errno differences (rename/link error paths)' % (
        nseq, nops_total, bad, soft[0]))
    return 1 if bad else 0


if __name__ == '__main__':
    sys.exit(main())
