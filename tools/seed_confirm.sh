#!/bin/sh
# usage: tools/seed_confirm.sh <seed-name> <dir with patch.diff demo.py meta.json> [full]
# confirms a seeded defect in a scratch worktree: patch applies, demo fails with / passes without,
# (full) the pinned suite still passes; then stores it under /verif/seeded/<seed-name>/
name=$1; src=$2; full=$3
wt=/tmp/confirm-$name
out=/verif/seeded/$name
rm -rf $wt; git -C /repo worktree add -q --detach $wt HEAD || exit 3
mkdir -p $out
cp $src/patch.diff $src/demo.py $src/meta.json $out/ 2>/dev/null
cd $wt
cp $out/demo.py $wt/demo.py
echo "--- demo on unmodified code"
PYTHONPATH=$wt timeout 300 /venv/bin/python demo.py > $out/demo_without.log 2>&1; rc0=$?
git apply $out/patch.diff || { echo "PATCH DOES NOT APPLY"; git -C /repo worktree remove --force $wt; exit 3; }
echo "--- demo with the change"
PYTHONPATH=$wt timeout 300 /venv/bin/python demo.py > $out/demo_with.log 2>&1; rc1=$?
echo "demo rc without=$rc0 with=$rc1"
rm -f $wt/demo.py    # the suite collects *.py (doctest modules): a demo without a __main__ guard would end the run
PYTHONPATH=$wt /venv/bin/python -c "import mapproxy" || echo "IMPORT FAILS"
if [ "$full" = "full" ]; then
  PYTHONPATH=$wt /venv/bin/python -m pytest -ra -q -p no:cacheprovider --timeout=900 --continue-on-collection-errors --junitxml=/dev/shm/confirm-$name.xml > /dev/shm/confirm-$name.log 2>&1
  /venv/bin/python - /dev/shm/confirm-$name.xml > $out/suite.txt <<'PY'
import json, sys
import xml.etree.ElementTree as ET
b = json.load(open('/root/.vp/BASELINE.json'))
want = set(b['stable_pass'])
passed = set()
for tc in ET.parse(sys.argv[1]).getroot().iter('testcase'):
    if not any(ch.tag in ('failure', 'error', 'skipped') for ch in tc):
        passed.add('%s::%s' % (tc.get('classname'), tc.get('name')))
missing = sorted(want - passed)
print('stable_pass: %d, passed with the change: %d, baseline tests not passing: %d' % (len(want), len(passed), len(missing)))
for m in missing[:40]:
    print('  MISSING', m)
PY
  cat $out/suite.txt
  rm -f /dev/shm/confirm-$name.xml /dev/shm/confirm-$name.log
fi
cd /verif
git -C /repo worktree remove --force $wt
echo "$name: demo_without_rc=$rc0 demo_with_rc=$rc1" > $out/confirm.txt
[ -f $out/suite.txt ] && cat $out/suite.txt >> $out/confirm.txt
exit 0
