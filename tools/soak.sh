#!/bin/sh
# usage: tools/soak.sh "<seeds>" [budget-seconds] [workers]
# runs every claimed check on the current /repo tree for each given VERIF_SEED (no evidence written) and prints one line
# per run; exit 1 if any run reports a violation or a harness error. Seeds nobody has run yet are the point.
cd "$(dirname "$0")/.."
seeds=${1:-"5 6 7 8 9"}; budget=${2:-60}; workers=${3:-16}
rc=0
for s in $seeds; do
  for id in C05 C06 C07 C08 C11 C12 C13 C15 C19 C20; do
    out=$(VERIF_SEED=$s ./check $id --budget $budget --workers $workers --no-evidence 2>&1); r=$?
    line=$(echo "$out" | grep "$id [a-z]*: runs=" | tail -1)
    echo "seed=$s rc=$r $line"
    if [ $r -ne 0 ]; then rc=1; echo "$out" | grep -A3 "^violation\|HARNESS\|Traceback" | cut -c1-1500 | head -30; fi
  done
done
exit $rc
