#!/bin/sh
# runs the pinned test suite sequentially (as the baseline does) and compares with BASELINE.json stable_pass
out=${1:-/dev/shm/baseline.junit.xml}
cd /repo && /venv/bin/python -m pytest -ra -q -p no:cacheprovider --timeout=900 --continue-on-collection-errors --junitxml=$out > /dev/shm/baseline.log 2>&1
/venv/bin/python - "$out" <<'PY'
import json, sys
import xml.etree.ElementTree as ET
b = json.load(open('/root/.vp/BASELINE.json'))
want = set(b['stable_pass'])
root = ET.parse(sys.argv[1]).getroot()
passed = set()
for tc in root.iter('testcase'):
    ok = not any(ch.tag in ('failure', 'error', 'skipped') for ch in tc)
    if ok:
        passed.add('%s::%s' % (tc.get('classname'), tc.get('name')))
missing = sorted(want - passed)
print('stable_pass: %d, passed now: %d, baseline tests not passing now: %d' % (len(want), len(passed), len(missing)))
for m in missing[:40]:
    print('  MISSING', m)
PY
