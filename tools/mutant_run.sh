#!/bin/sh
# usage: tools/mutant_run.sh <patch> <check-id> [extra check args...]
# runs one check against a scratch copy of /repo with the patch applied (VERIF_REPO), then removes the copy
patch=$(readlink -f "$1"); id=$2; shift 2
d=/dev/shm/verif-mut-$$
mkdir -p $d && cp -r /repo/mapproxy $d/mapproxy && find $d -name __pycache__ -prune -exec rm -rf {} + 
( cd $d && patch -p1 -s < "$patch" ) || { echo "patch failed"; rm -rf $d; exit 3; }
cd /verif && VERIF_REPO=$d ./check $id --no-evidence "$@"
rc=$?
rm -rf $d
exit $rc
