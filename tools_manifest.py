#!/usr/bin/env python3
"""regenerates MANIFEST.json from the table below (keeps it valid at all times)"""
import json, os
HERE = os.path.dirname(os.path.abspath(__file__))

CLAIMED = {
    'C07': dict(level='exploration', ref='DESIGN.md 6.3',
                text='seeded search over interleavings (file-system-call granularity) of 2-5 contender processes running '
                     'the real FileLock/SemLock/LockFile code on a simulated kernel (SimFS flock semantics, simulated clock, '
                     'process kills); online mutual-exclusion monitor, justified-timeout oracle, relock-after-quiescence '
                     '(incl. giving up on stale information after the lock became free) and deadlock detection; one unlink of the lock file may fail (EPERM/EIO/EACCES), one flock() may fail (ENOLCK/EINTR/EIO); in the tile-locker mode the locks come from TileLocker.lock() while another task keeps running cleanup_lockdir(); semaphores may live in such a cleaned directory, with slots held for 100 s and late-coming contenders; the wall clock may be set back ten minutes while locks are held. Sampling of schedules, not proof.',
                note='trusted: SimFS model of open/flock/unlink/close semantics (differentially tested against tmpfs), '
                     'pre-emption only at seam calls, CPython refcounting for descriptor lifetime',
                technique='deterministic simulation: baton-passing scheduler over real threads + in-memory POSIX fs with flock, seeded schedule search, process-kill injection'),
    'C05': dict(level='exploration', ref='DESIGN.md 6.1',
                text='seeded histories of store / bulk store / load (also with metadata) / bulk load / is_cached / remove / bulk remove / reopen, '
                     'issued alternately through two cache objects open on the same store (two processes\' views; a fresh object\'s first '
                     'operation is the next one of the history), with wall-clock steps in between, over addresses '
                     'chosen to collide in every backend (level 0, bundle borders, path digit groups, equal x/y at different '
                     'levels, dimension values, shared single-colour links), real backend objects compared operation by '
                     'operation and by full-pool sweeps with a dict reference model; separate I/O-fault configuration '
                     '(EIO/ENOSPC/EACCES/short write inside a mutating call, one-shot or lasting until the call returns) for the file and compact '
                     'backends on SimFS; about one case in 200 is a three-phase history in three separately started interpreters; about one in eight is a '
                     'concurrent-writers case (2-3 processes or threads with disjoint but colliding addresses under the scheduler). The cache directory may lie behind a symbolic link. Payloads range up to 200 KB with sizes around 64 KiB / 128 KiB; bulk stores may name one address twice; about 4% of the compact histories run on bundles extended (sparsely) beyond 4 GiB.',
                note='trusted: SimFS for file/compact backends; sqlite-based backends run on a real tmpfs directory outside the '
                     'simulator (sequential, fault-free only; a second connection waits 0.3 s of real time for a locked database); sampling of histories, not exhaustive',
                technique='deterministic simulation: model-based history checking against a reference map on a simulated file system with I/O-fault injection'),
    'C06': dict(level='fault_enumeration', ref='DESIGN.md 6.2',
                text='for each seeded history (prior contents + one victim store on file / compact v1,v2 / legend / seed-progress '
                     'storage) the real store runs once on SimFS under the real CPython buffering while every mutating raw '
                     'operation is journalled; every journal prefix, and every 4096-aligned tear of every write, is '
                     'reconstructed and read back through a fresh cache object (thorough: all crash points of each history; '
                     'quick: a seeded sample of 10 per history). Oracle: old / complete new / allowed-missing, never '
                     'truncated or foreign bytes, bystanders unchanged; then a continuation on the post-crash state (the '
                     'interrupted store repeated (victim tiles may come as image files instead of images in memory), another single colour stored at the victim address, stores to other addresses, a remove - in alternating order) must behave like a map '
                     'and keep bundles structurally valid.',
                note='trusted: process-death crash model (page-cache survives, syscalls ordered, page-granular tears), SimFS '
                     'journal replay; histories are sampled, crash points per history are enumerated',
                technique='deterministic simulation: journalled simulated file system, enumeration of crash prefixes and torn writes, restart through fresh objects'),
    'C19': dict(level='exploration', ref='DESIGN.md 6.9',
                text='seeded store / bulk store / overwrite / remove histories on the real CompactCacheV1/V2 over SimFS; after '
                     'every operation the bundle bytes are parsed by an independent reader written from the format '
                     'description (index entries empty or pointing at complete, size-matching, non-overlapping records) and '
                     'compared with a dict model; the real defrag_compact_cache then runs with seeded thresholds: same bytes '
                     'for every address, no file grew, still valid. Concurrent configuration: 2-4 writers (processes, or threads sharing one cache object) '
                     'scheduled at file-system-call granularity (incl. 3-4 writers contending for one bundle with lock-retry timers '
                     'firing while the holder runs), checked at quiescence. Sequential histories also meet I/O errors (one-shot or sticky) inside '
                     'a store/remove - the bundle must stay structurally valid - and dry-run defragmentations that must not change a byte. A defragmentation may meet one failing open() (it may abort, it must not lose a tile). About one case in 100 '
                     'extends a bundle beyond 4 GiB as a sparse file on tmpfs and validates it through mmap. About one case in 70 fills 1-8 complete rows of a bundle before defragmenting. Every second writer process may reach the cache directory through a symbolic link. The wall clock may step forward while concurrent writers work. In the threads mode a thread may also be switched between two statements of compact.py (line events). Cache directory names vary (also names containing the bundle extension).',
                note='trusted: the independent parser (checks/bundleparse.py), SimFS; histories and schedules are sampled',
                technique='deterministic simulation: model-based history checking with an independent bundle parser; seeded schedule search for concurrent bundle writers'),
    'C15': dict(level='exploration', ref='DESIGN.md 6.8',
                text='seeded search over schedules of the real ThreadPool (map/imap/starmap/starcall, pool and module-level '
                     'forms, both result modes, pool sizes 1-7, 0-6 items, seeded failing positions): worker threads are the '
                     'real ThreadWorker threads adopted by the baton scheduler, queues are scheduler-aware, so arbitrary '
                     'completion orders and arbitrarily stalled workers are produced; oracle: one result per input in input '
                     'order (None is a legitimate result), own exception object per failing item (or raised after an in-order prefix), each item run at most '
                     'once, the call terminates; a second call on the same pool object is judged the same way. Call-site mode: 1-3 request '
                     'threads on one real TileManager each fan out 2-4 tile creations (TileCreator._create_threaded) with seeded failing '
                     'fetches: every caller gets its own tiles in input order, a failure reaches exactly the caller it belongs to. Pool re-use after a first call that the consumer abandoned at the first '
                     'failing result (as the call sites do), with seeded garbage-collection points during the second call; busy processes (thousands of live threads), one refused thread start, nested fan-outs (up to 24 outer items); module-level semaphores/locks of async_ are scheduler-aware; failing items may all raise the same exception object; the consumer of a first call may stop early without a shutdown; the callable handed in is a function, a functools.partial, a callable object or a bound method.',
                note='trusted: SimQueue has queue.Queue semantics; pre-emption only at queue operations and explicit item steps',
                technique='deterministic simulation: baton-passing scheduler adopting the pool\'s real worker threads, seeded completion-order search'),
    'C08': dict(level='exploration', ref='DESIGN.md 6.4',
                text='seeded search over schedules of 2-6 concurrent tile requests (threads sharing a TileManager and separate '
                     'processes sharing cache and lock directories) through the real TileManager/TileCreator/TileLocker/backend '
                     'on SimFS with a position-and-generation-encoding upstream stub; swarm over backend, meta size/buffer, '
                     'minimize_meta_requests, bulk_meta_tiles, concurrent_tile_creators; modes: plain, stalled lock holder '
                     '(independence in simulated time), upstream failures, process kill. Oracle: every response pixel-exact '
                     'and attributable to one fetch, final cache holds only correct in-grid tiles incl. every served tile '
                     '(API + raw walk), one fetch per meta tile, termination. A rare lock-identity case starts two fresh interpreters with '
                     'different hash seeds and compares the lock file names they derive for the same tiles and bundles. Backends include linked '
                     'single-colour tiles (one shared file per colour, written without a tile lock of its own). One flock() on a tile lock may fail (ENOLCK/EIO). The database file of a level may be removed after every process has opened it. Symlinked single-colour backends may run under a refresh rule with a colour file older than the rule. Threads may be switched between two statements of the tile-manager / cache code (line events). Worker processes may start together (each builds its cache when its first request runs). File-cache cases may carry a dimension value per client (judged per value). Backends also include mbtiles, per-level sqlite, geopackage and per-level geopackage caches: the SQLite calls are pre-emption points and busy waits run in simulated time, requests run inside cache sessions. With bulk_meta_tiles the source may have nothing (BlankImage) for some tiles of a meta tile: the others must still be stored once, without refetching.',
                note='trusted: stub source (TileManager-level runs) or simulated HTTP transport behind HTTPClient.open (about 20% of the '
                     'runs go through the full WSGI application built by the real loader: TMS/WMTS/KML/WMS-C/WMS GetMap), SimFS '
                     'flock/rename semantics, pre-emption at seam calls only',
                technique='deterministic simulation: baton-passing scheduler over threads and simulated processes, simulated fs/locks/upstream, seeded schedule + fault search'),
    'C13': dict(level='exploration', ref='DESIGN.md 6.7',
                text='seeded histories of tile requests, clock advances (sub-second, to a second boundary, backwards, hours ... months), '
                     'threshold changes (relative age in seconds ... weeks or several units at once, absolute ISO time, mtime of a file), touches of that file, upstream '
                     'failure/recovery and real refresh seed tasks, on the real TileManager (single- and meta-tile creation) with '
                     'file cache (also with symlinked single-colour tiles) on SimFS or per-level sqlite cache, plus two or three concurrent requests under a refresh rule (the upstream may answer in no time, so that a request is overtaken between its freshness check and its lock); oracle from the timestamps actually recorded: stale tile => '
                     'upstream asked, tile rewritten with the new fetch generation; fresh tile => no upstream call, same '
                     'generation; a failed refresh never removes or changes the stored tile; a tile written during a request is recorded with '
                     'the time of that write even when the source reports older data; single stored tiles may be aged (mixed-age meta tiles) or disappear; bulk_meta_tiles deployments fetch tile by tile; minimize_meta_requests deployments answer requests for 3-6 tiles from one minimal rectangle; a disk error may hit the store of a refreshed tile (the old tile must survive); an optional transparent overlay source may fail softly (the uncacheable result must not be stored); the seeding tile manager carries the cache\'s own refresh_before; seed workers may be forked copies of the tile manager; the seed task may come out of the seeding configuration with a tile written between reading it and seeding; absolute thresholds also arrive as datetime objects; the tile manager may be built by the real loader (two grids); same-second band unspecified. Cases run in seeded '
                     'fixed-offset local time zones or one with daylight-saving time in force.',
                note='trusted: simulated clock behind time.time/time.sleep/datetime.now of util/times.py, stub upstream, SimFS mtimes; '
                     'sqlite backend outside the simulator',
                technique='deterministic simulation: simulated clock + simulated upstream with failure injection, model-based history checking'),
    'C20': dict(level='exploration', ref='DESIGN.md 6.10',
                text='seeded histories of GETs, conditional GETs (If-None-Match current/previous/garbage, If-Modified-Since '
                     'before/equal/after/previous/ancient/malformed in the three HTTP-date spellings), clock advances and set-backs, rewrites through the real expiry path and upstream-500 '
                     'periods against the full WSGI application built by the real loader (TMS, KML, WMTS REST/KVP, WMS-C; file '
                     'cache on SimFS - also with sym- or hard-linked single-colour tiles - or per-level sqlite cache; single and meta tiles; one source or two merged sources of which only the overlay fails) with a simulated upstream behind '
                     'HTTPClient.open; oracle: identical validators and body while the fetch generation in the pixels is '
                     'unchanged, 304 + empty body for the current ETag, every 304 justified (also for the previous copy\'s validators, pre-1970 '
                     'dates and requests that themselves trigger the refresh), fill images carry no-store, get no 304 and are never '
                     'served from the cache. The source may make one colour transparent (error fill images pass through that operation too). The cache may carry an invisible watermark filter, WMS-C answers may be merged from two cached layers, and the cache may sit on top of an inner cache with a larger tile size (fill images must stay uncacheable through the crop). A cacheable 404 mapping of the same colour may sit next to the uncached 500 one (the oracle replays what is stored per tile); race cases rewrite a tile through the cache API while it is served (file backend at file-system-call granularity, per-level sqlite at SQLite-call granularity, with and without a refresh rule) (a response\'s ETag may equal the stored tile\'s only if the bodies agree). A rewrite two or more seconds after the previous write must move Last-Modified on. The disk may be full while a fetched tile is stored (a tile that was not stored must not be answered with 304 later). Dates are written and read by the check\'s own code; cases run in seeded fixed-offset local time zones.',
                note='trusted: simulated HTTP transport and clock; sqlite backend outside the simulator; creating responses are '
                     'excluded from the equality clause',
                technique='deterministic simulation: full WSGI stack over simulated clock, file system and upstream with HTTP-500 injection; model-based history checking'),
    'C12': dict(level='exploration', ref='DESIGN.md 6.6',
                text='seeded cache contents (tiles stored at seeded simulated times, some in the same second; foreign objects: a '
                     'second cache, lock files, stray files) x one cleanup task (level list / range / open and zero-ended ranges / all, also spelled as resolutions, with a second empty grid of the cache named first in the entry; remove_all, remove_before as '
                     'absolute time / relative age / file mtime, default; full extent, bbox (grid SRS or EPSG:4326), polygon, multi-part or empty coverage; seeded fixed-offset local time zone and file time-stamp granularity; a deep variant places tiles around the bundle borders of levels 8/9 of a twelve-level pyramid; an earlier cleanup task of the same run may precede the task under test; directories may be older than their tiles; removals may take seconds; a temporary file may vanish while the cleanup walks its directory; tiles may be stored again before the cleanup; the cache may have a coverage of its own; another process may hold the write lock of a database file during the cleanup (a loud failure is accepted, a silent one is not); SQLite caches may run in WAL mode with connections kept open by another process (database files carry simulated time stamps); the clock of the cleanup may be behind the newest tiles; factor-2, sqrt2 and custom-resolution grids) built by the real '
                     'CleanupConfiguration and executed by the real cleanup() - all three strategies, with the real '
                     'TileCleanupWorker threads under the scheduler - on file (6 layouts, linked single-colour tiles, cache-level refresh_before), compact v1/v2 (SimFS), sqlite, mbtiles, '
                     'geopackage (tmpfs); oracle from recorded timestamps and independent geometry: must-remove / must-keep / '
                     'unspecified (same second, sub-pixel overlap), foreign objects untouched, task terminates without raising.',
                note='trusted: SimFS walk/rmtree/mtime semantics, simulated clock; sqlite backends outside the simulator',
                technique='deterministic simulation: simulated clock + file system (readdir order permuted), real cleanup workers under the baton scheduler, model-based checking'),
    'C11': dict(level='exploration', ref='DESIGN.md 6.5',
                text='seeded seed tasks (factor-2 / sqrt2 / custom-resolution grids, non-square extents, ll/ul origin, level '
                     'subsets given as lists, ranges (open, zero-ended, beyond the grid) or resolutions, bbox / concave / multi-part / single-tile coverages and two coverages per seed entry in the grid SRS or EPSG:4326 (also a polygon plus a box in its notch), another seeding process holding the cache lock of one of two caches for a while, grids with near-coincident tile borders, one or two caches per seed entry, meta sizes, skip_geoms_for_last_levels, progress cadence, '
                     'cache meta_buffer 0-200, seed entries naming a second grid (another SRS) of their caches first, per-hand-off simulated work time) run through the real seed()/TileWalker/SeedProgress/ProgressLog/ProgressStore '
                     'with a recording pool at the hand-off; uninterrupted run compared with a brute-force shapely oracle over whole '
                     'levels (complete up to one pixel of the finest selected level, minimal up to a one-pixel band); then the same task with 1-3 seeded interruptions '
                     '(exception or hard kill at a hand-off, at a line event of the seeding code via sys.settrace, inside the '
                     'progress-file write, or a stop through SeedProgress.running()) each followed by a restart from the saved progress: union of hand-offs must cover the '
                     'uninterrupted run, the progress file must always load.',
                note='trusted: recording pool instead of real workers (the hand-off is the stated observation point), SimFS for the '
                     'progress file, simulated clock; interruption points are sampled, not enumerated',
                technique='deterministic simulation: crash/interrupt injection at seam calls and line events, simulated clock driving progress cadence, restart from durable state, brute-force reference model'),
}

NA = {
    'C01': 'pure function of (request, layer configuration): no schedule, clock, crash, fault or persistent history for a simulator to control',
    'C02': 'pure function of grid configuration and tile address (capabilities vs served rectangle); an input-space problem, nothing to schedule or inject',
    'C03': 'pure floating-point grid arithmetic; no time, I/O, concurrency or faults involved',
    'C04': 'quantified over configurations and tiles; only its concurrent-creator clause has a schedule in it and that clause is exercised inside the C08 check (every tile produced under the scheduler is compared with ground truth), not claimed here',
    'C09': 'path confinement is a function of the request string; nothing to schedule, crash or fault-inject',
    'C10': 'authorization clipping is a function of (callback result, request); no shared state, timing or faults',
    'C14': 'compositing is pure image arithmetic on one request',
    'C16': 'refusal of invalid/oversized requests is decided per request; not schedule-, clock- or fault-dependent',
    'C17': 'contract on outgoing upstream requests is a function of (client request, source configuration)',
    'C18': 'well-formedness/escaping of responses is a function of the request bytes',
}

PENDING = []


def main():
    for pid in PENDING:
        if pid not in CLAIMED:
            NA[pid] = 'simulation target by design (DESIGN.md section 6) but its check is not built yet at this commit; not claimed until it is'
    checks = []
    for pid in sorted(CLAIMED):
        c = CLAIMED[pid]
        checks.append({
            'property_id': pid,
            'quick_cmd': './check %s --tier quick' % pid,
            'thorough_cmd': './check %s --tier thorough' % pid,
            'evidence_file': 'evidence/%s.json' % pid,
            'replay_cmd_template': './check %s --replay {path}' % pid,
            'engine': 'simkit',
            'level_claimed': {'category': c['level'], 'text': c['text'], 'design_ref': c['ref']},
            'level_note': c['note'],
            'technique': c['technique'],
        })
    m = {
        'version': 1,
        'setup_cmd': './setup.sh',
        'hooks': {
            'guard': 'MAPPROXY_VERIF',
            'enable': 'no hooks in /repo: every seam (os.*, builtins.open, fcntl.flock, time.*, threading.Thread.start, '
                      'queue classes, HTTP client) is a module attribute patched from /verif for the duration of one simulated run',
            'baseline_off_cmd': 'cd /repo && /venv/bin/python -m pytest -ra -q -p no:cacheprovider --timeout=900 --continue-on-collection-errors',
            'source_commits': [],
            'add_only': True,
        },
        'engines': [{
            'name': 'simkit', 'path': 'simkit/', 'serves_properties': sorted(CLAIMED),
            'kind_free_text': 'custom deterministic simulator: choice tape (one integer decides everything), baton-passing '
                              'scheduler over real threads, in-memory POSIX file system with flock + journal/crash '
                              'reconstruction, simulated clock, simulated upstream; seeded swarm search, ddmin + tape '
                              'shrinking, JSON replay files',
        }],
        'checks': checks,
        'not_applicable': [{'property_id': k, 'reason': v} for k, v in sorted(NA.items())],
        'notes': 'Technique: deterministic simulation with fault injection (see DESIGN.md). Exit codes: 0 held / '
                 '1 VIOLATION / 2 HARNESS-ERROR. Genuine defects found and repaired are listed under "fixed" in '
                 'known_findings.json.',
    }
    with open(os.path.join(HERE, 'MANIFEST.json'), 'w') as f:
        json.dump(m, f, indent=1)
    print('MANIFEST.json: %d checks, %d not applicable' % (len(checks), len(NA)))

if __name__ == '__main__':
    main()
