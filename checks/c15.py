"""C15 - parallel fan-out returns every result exactly once and in input order.

System: the real mapproxy.util.async_ ThreadPool (map / imap / starmap / starcall and the
module-level imap / starmap / starcall).  Its ThreadWorker threads are real threads adopted by
the simulator when the code under test calls Thread.start(); its queues are SimQueues, so every
get / put / empty / join / task_done is a yield point and the seeded chooser produces arbitrary
completion orders, including workers stalled for an arbitrarily long time.
"""
import copy
import os
import sys

sys.path.insert(0, os.path.dirname(os.path.dirname(os.path.abspath(__file__))))

from simkit.world import World  # noqa: E402
from simkit.sched import SimAbort, SimCrash  # noqa: E402
from checks import common as C  # noqa: E402

PROP = 'C15'
LEVEL = 'exploration'
VERSION = 1
BUDGET = {'quick': 40, 'thorough': 600}
CHUNK = {'quick': 150, 'thorough': 300}
RULE = ('one case = one call of map/imap/starmap/starcall (pool method or module-level function) with 0-6 items, pool '
        'size 1-7, seeded positions of failing items, both result modes, callable kind (function / partial / callable object / bound method), in an idle or a busy process (up to 2000 further live threads), optionally with one refused thread start, under one seeded schedule of the worker threads '
        '- or (nested mode) 3-24 outer items each running an inner fan-out - or (call-site mode) 1-3 request threads on one TileManager each creating 2-4 uncached (meta) tiles at once '
        'through TileCreator._create_threaded, with seeded failing fetches '
        '(every queue operation and every step inside an item is a pre-emption point); non-trivial = at least two items '
        'ran on worker threads and their completion order differs from the input order or an item failed; distinct = '
        'distinct hash of the scheduler event log')
COMPONENTS = {
    'real': ['mapproxy.util.async_.ThreadPool / ThreadWorker / imap / starmap / starcall / _result_iter',
             'threading.Thread (real threads, adopted at start())', 'mapproxy.config base_config thread-local plumbing',
             'call-site mode: mapproxy.cache.tile.TileManager/TileCreator._create_threaded, FileCache and TileLocker on SimFS'],
    'stub': ['queue.Queue (SimQueue with identical semantics, blocking through the scheduler)',
             'scheduler choice of which thread runs', 'call-site mode: upstream source (SimSource)'],
}
ASSUMPTIONS = [
    'pre-emption at queue operations and at explicit steps inside the work items (not between arbitrary bytecodes)',
    'call-site mode: callers ask for tiles of pairwise different meta tiles, so a failing fetch belongs to exactly one caller',
    'raising mode with a pool of size < 2 returns the exc_info tuple in the slot of the failing item instead of raising; '
    'the statement allows "reported for that item", so this is counted as unspecified, not as a violation',
]

APIS = ['pool.map', 'pool.imap', 'pool.starmap', 'pool.starcall', 'imap', 'starmap', 'starcall']


class ItemError(Exception):
    pass


def _gen_callsite(t):
    """the fan-out as mapproxy's tile manager uses it: several callers (request threads sharing one TileManager) each
    create several uncached tiles / meta tiles at once through TileCreator._create_threaded"""
    meta = t.pick([[1, 1], [1, 1], [2, 2]])
    z = 4
    n = (1 << z) // meta[0]           # meta tiles per axis
    cells = []
    while len(cells) < 12:
        c = [t.choice(n), t.choice(n)]
        if c not in cells:
            cells.append(c)
    ncall = t.randint(1, 3)
    callers = []
    k = 0
    for _ in range(ncall):
        m = t.randint(2, 4)
        # one tile out of each of m distinct meta tiles: no two callers share a meta tile
        callers.append([[cx * meta[0] + t.choice(meta[0]), cy * meta[1] + t.choice(meta[1]), z] for cx, cy in cells[k:k + m]])
        k += m
    return {'kind': 'callsite', 'meta_size': meta, 'creators': t.randint(2, 4), 'callers': callers,
            'policy': t.pick([['random'], ['sticky', 0.5], ['sticky', 0.2]]),
            'fail': sorted(set(t.choice(k) for _ in range(t.pick([0, 0, 1, 2])))),     # indexes (in request order) of failing fetches
            'yields': [t.randint(0, 3) for _ in range(k)]}


def _run_callsite(sc, tape):
    from checks import upstream as U
    from mapproxy.grid import tile_grid
    from mapproxy.cache.tile import TileManager
    from mapproxy.cache.base import TileLocker
    from mapproxy.image.opts import ImageOptions
    from mapproxy.source import SourceError
    w = World(tape, policy=tuple(sc['policy']), step_cap=300000)
    sched = w.sched
    meta = sc['meta_size']
    flat = [c for cl in sc['callers'] for c in cl]

    def cell(c):
        return (c[0] // meta[0], c[1] // meta[1])
    idx = dict((cell(c), i) for i, c in enumerate(flat))
    shared = {'log': [], 'gen': 0}

    def plan(entry):
        for c in flat:
            if U.covers(entry['bbox'], tuple(c)):
                i = idx[cell(c)]
                entry['item'] = i
                return {'yields': sc['yields'][i], 'fail': i in sc['fail']}
        return {}
    shared['plan'] = plan
    image_opts = ImageOptions(format='image/png', colors=0)
    grid = tile_grid(3857, tile_size=(U.TS, U.TS), origin='ll')
    results = {}
    v = None
    with w:
        cache = C.make_cache({'type': 'file', 'layout': 'tc'})
        locker = TileLocker('/simfs/locks', 60, cache.lock_cache_id)
        src = U.SimSource(w, shared, supports_meta_tiles=True, image_opts=image_opts)
        tm = TileManager(grid, cache, [src], 'png', locker, image_opts=image_opts, meta_size=meta, meta_buffer=0,
                         concurrent_tile_creators=sc['creators'])

        def caller(ci, coords):
            def fn():
                try:
                    tiles = tm.load_tile_coords([tuple(c) for c in coords])
                    sched.check_alive()
                    results[ci] = ('ok', [(t.coord, t.source) for t in tiles])
                except SourceError as ex:
                    results[ci] = ('raised', ex)
            return fn
        proc = w.new_proc('server')
        for ci, coords in enumerate(sc['callers']):
            sched.spawn(caller(ci, coords), 'caller%d' % ci, proc)
        outcome = w.run_tasks()
        for t_ in sched.tasks:
            if t_.exc is not None and not isinstance(t_.exc, (SimAbort, SimCrash)):
                raise t_.exc
        if outcome != 'done':
            v = {'sig': 'C15:callsite-hang', 'msg': 'concurrent tile creations on one tile manager did not terminate: %s %r; '
                 'finished callers %s' % (outcome, sched.stuck_info, sorted(results))}
        else:
            base = 0
            for ci, coords in enumerate(sc['callers']):
                mine = set(range(base, base + len(coords)))
                base += len(coords)
                failing = sorted(mine & set(sc['fail']))
                kind, val = results[ci]
                if kind == 'raised':
                    if not failing:
                        v = {'sig': 'C15:callsite-foreign-exception', 'msg': 'caller %d got %r although none of its fetches '
                             'failed (failing fetches: %s)' % (ci, val, sc['fail'])}
                        break
                    continue
                if failing:
                    v = {'sig': 'C15:callsite-swallowed-exception', 'msg': 'the fetch for item %s of caller %d failed but the '
                         'call returned normally' % (failing, ci)}
                    break
                got = [tuple(c) for c, _ in val]
                if got != [tuple(c) for c in coords]:
                    v = {'sig': 'C15:callsite-wrong-results', 'msg': 'caller %d asked for %s and received %s' % (
                        ci, [tuple(c) for c in coords], got)}
                    break
                for c, source in val:
                    if source is None:
                        v = {'sig': 'C15:callsite-missing-result', 'msg': 'caller %d: no image for %s' % (ci, c)}
                        break
                    ok, g, msg = U.check_tile_image(source.as_image(), c)
                    if not ok:
                        v = {'sig': 'C15:callsite-wrong-results', 'msg': 'caller %d: image for %s is wrong: %s' % (ci, c, msg)}
                        break
                if v:
                    break
    workers = set(e['task'] for e in shared['log'])
    probes = {'mode_callsite': 1, 'callsite_callers_%d' % len(sc['callers']): 1}
    return {'violation': v, 'digest': C.digest_of('callsite', sched.log), 'nontrivial': len(workers) > 1,
            'steps': sched.steps, 'sim_time': w.clock.now - 1.7e9,
            'faults': {'upstream_failure': sum(1 for e in shared['log'] if e['ok'] is False)}, 'probes': probes,
            'sample': {'mode': 'callsite', 'callers': sc['callers'], 'creators': sc['creators'], 'meta_size': meta,
                       'fail': sc['fail'], 'fetches': len(shared['log'])}}


def _gen_nested(t):
    """fan-outs inside fan-outs (a layer renderer whose items are tile creators that query several sources): many outer items
    at once, each running an inner fan-out of its own"""
    return {'kind': 'nested', 'outer': t.pick([3, 6, 21, 24]), 'inner': t.pick([2, 2, 3]),
            'policy': t.pick([['random'], ['sticky', 0.5], ['sticky', 0.2]]), 'yields': t.randint(0, 2),
            'fail_inner': t.pick([None, None, [t.choice(24), t.choice(3)]])}


def _run_nested(sc, tape):
    from mapproxy.util import async_
    from simkit.sched import simulate_module_primitives
    w = World(tape, policy=tuple(sc['policy']), step_cap=400000)
    sched = w.sched
    simulate_module_primitives(w, async_)
    out = {}
    n, m = sc['outer'], sc['inner']
    fail = sc.get('fail_inner')
    if fail is not None and (fail[0] >= n or fail[1] >= m):
        fail = None

    def inner(i, j):
        for _ in range(sc['yields']):
            sched.yield_point('inner', (i, j))
        if fail is not None and [i, j] == list(fail):
            raise ItemError('inner %d/%d' % (i, j))
        return i * 100 + j

    def outer(i):
        return list(async_.imap(lambda j: inner(i, j), list(range(m))))

    def caller():
        try:
            out['res'] = list(async_.ThreadPool(n).map(outer, list(range(n))))
        except ItemError as ex:
            out['raised'] = ex
    with w:
        sched.spawn(caller, 'caller', w.main_proc)
        try:
            outcome = w.run_tasks()
        except RuntimeError:
            outcome = 'teardown-hang'
        for t_ in sched.tasks:
            if t_.exc is not None and t_.name == 'caller':
                raise t_.exc
    v = None
    if 'res' not in out and 'raised' not in out:
        v = {'sig': 'C15:nested-hang', 'msg': '%d outer items each with an inner fan-out over %d items: the call did not terminate '
             '(%s, blocked: %r)' % (n, m, outcome, sched.stuck_info)}
    elif fail is None:
        exp = [[i * 100 + j for j in range(m)] for i in range(n)]
        if out.get('res') != exp:
            v = {'sig': 'C15:nested-wrong-results', 'msg': 'nested fan-out returned %r, expected %r' % (out.get('res') or out.get('raised'), exp)}
    elif 'raised' not in out:
        v = {'sig': 'C15:nested-swallowed', 'msg': 'inner item %s failed but the nested fan-out returned %r' % (fail, out.get('res'))}
    return {'violation': v, 'digest': C.digest_of('nested', sc, sched.log), 'nontrivial': True, 'steps': sched.steps, 'sim_time': 0.0,
            'faults': {}, 'probes': {'mode_nested': 1, 'nested_outer_%d' % n: 1},
            'sample': {'mode': 'nested', 'outer': n, 'inner': m, 'fail_inner': fail}}


def gen(t, tier):
    if t.chance(0.03):
        return _gen_nested(t)
    if t.chance(0.12):
        return _gen_callsite(t)
    api = t.pick(APIS)
    n = t.weighted([(0, 1), (1, 1), (2, 3), (3, 3), (4, 3), (5, 3), (6, 4)])
    sc = {'api': api, 'pool': t.randint(1, 7), 'result_objects': bool(t.choice(2)) if api.startswith('pool.') else False,
          'policy': t.pick([['random'], ['sticky', 0.5], ['sticky', 0.2], ['sticky', 0.05]]),
          'items': [{'yields': t.randint(0, 3), 'fail': bool(t.chance(0.2)), 'none': bool(t.chance(0.15))} for _ in range(n)],
          'busy_threads': t.pick([0, 0, 0, 40, 300, 2000]),
          # the operating system refuses to start the k-th worker thread of the first call (thread / pid limit reached)
          'start_fail': t.pick([None] * 10 + [0, 0, 1, 2]),
          # what kind of callable the caller hands in: a plain function, a functools.partial, an object with __call__ or a bound
          # method (only the first has a __name__)
          'callable': t.pick(['function', 'function', 'function', 'partial', 'object', 'method']),
          # threads may also be switched between two statements of async_.py (line events), not only at queue operations
          'linepreempt': t.pick([None, None, None, None, 4, 15]),
          # every failing item raises the very same exception object (a memoised upstream failure, one failed future that
          # several items wait for)
          'shared_exc': bool(t.chance(0.15))}
    if api.startswith('pool.') and t.chance(0.3):
        # the same pool object is used for a second call (after the first one returned or raised)
        m = t.randint(2, 5)
        sc['second'] = [{'yields': t.randint(0, 3), 'fail': bool(t.chance(0.15)), 'none': bool(t.chance(0.15))} for _ in range(m)]
        if sc['result_objects'] and t.chance(0.6):
            # the first call is consumed the way mapproxy's call sites do it: stop at the first failing result, shut the pool
            # down and re-raise - the suspended result iterator then lives in a reference cycle (exception <-> frame) until
            # the garbage collector runs, which it does at seeded scheduling points during the second call
            sc['abandon'] = True
            sc['gc_at'] = sorted(set(t.choice(150) for _ in range(t.randint(1, 3))))
            if not any(i['fail'] for i in sc['items']) and sc['items']:
                sc['items'][t.choice(len(sc['items']))]['fail'] = True
        elif sc['result_objects'] and len(sc['items']) >= 2 and t.chance(0.5):
            # the consumer of the first call simply stops after a few results (a break in its loop): no exception, no
            # shutdown - the rest of that call is still under way when the pool is used again
            sc['leave_early'] = t.randint(1, len(sc['items']) - 1)
    return sc


def shrink(sc):
    if sc.get('kind') == 'nested':
        if sc.get('fail_inner') is not None:
            c = copy.deepcopy(sc)
            c['fail_inner'] = None
            yield c
        if sc['yields']:
            c = copy.deepcopy(sc)
            c['yields'] = 0
            yield c
        return
    if sc.get('kind') == 'callsite':
        for i in range(len(sc['callers'])):
            if len(sc['callers']) > 1:
                c = copy.deepcopy(sc)
                base = sum(len(x) for x in sc['callers'][:i])
                n = len(sc['callers'][i])
                del c['callers'][i]
                del c['yields'][base:base + n]
                c['fail'] = [f - n if f >= base + n else f for f in sc['fail'] if not base <= f < base + n]
                yield c
        if sc['fail']:
            c = copy.deepcopy(sc)
            c['fail'] = sc['fail'][1:]
            yield c
        if any(sc['yields']):
            c = copy.deepcopy(sc)
            c['yields'] = [0] * len(sc['yields'])
            yield c
        return
    for i in range(len(sc['items'])):
        c = copy.deepcopy(sc)
        del c['items'][i]
        yield c
    for i, it in enumerate(sc['items']):
        if it['yields']:
            c = copy.deepcopy(sc)
            c['items'][i]['yields'] = 0
            yield c
        if it.get('none'):
            c = copy.deepcopy(sc)
            c['items'][i]['none'] = False
            yield c
        if it['fail'] and sum(1 for x in sc['items'] if x['fail']) > 1:
            c = copy.deepcopy(sc)
            c['items'][i]['fail'] = False
            yield c
    if sc['pool'] > 2:
        c = copy.deepcopy(sc)
        c['pool'] = 2
        yield c
    if sc.get('second'):
        c = copy.deepcopy(sc)
        del c['second']
        yield c
        for i in range(len(sc['second'])):
            if len(sc['second']) > 2:
                c = copy.deepcopy(sc)
                del c['second'][i]
                yield c


def run(sc, tape):
    if sc.get('kind') == 'nested':
        return _run_nested(sc, tape)
    if sc.get('kind') == 'callsite':
        return _run_callsite(sc, tape)
    from mapproxy.util import async_
    from simkit.sched import simulate_module_primitives
    w = World(tape, policy=tuple(sc['policy']), step_cap=20000)
    simulate_module_primitives(w, async_)
    if sc.get('linepreempt'):
        w.sched.enable_line_preemption(['mapproxy/util/async_.py'], sc['linepreempt'])
    start_state = {'n': 0, 'fired': False}
    if sc.get('start_fail') is not None:
        class RefusedWorker(async_.ThreadWorker):
            def start(self):
                n = start_state['n']
                start_state['n'] += 1
                if n == sc['start_fail'] and not start_state['fired']:
                    start_state['fired'] = True
                    raise RuntimeError("can't start new thread")
                return async_.threading.Thread.start(self)      # the World's patched start: adopted by the scheduler
        w.extra_patches.append((async_, 'ThreadWorker', RefusedWorker))
    if sc.get('busy_threads'):
        # the fan-out happens in a busy server process: many other request threads are alive (seen through
        # threading.active_count / enumerate)
        import threading
        real_count = threading.active_count
        w.extra_patches.append((threading, 'active_count', lambda: real_count() + sc['busy_threads']))
    sched = w.sched
    rounds = [sc['items']] + ([sc['second']] if sc.get('second') else [])
    threads_used = set()
    outs = []
    state = {}
    pool_holder = {}

    def setup_round(r):
        items = rounds[r]
        n = len(items)
        shared_ = ItemError('round %d: the shared failure' % r)
        state.update({'items': items, 'n': n,
                      'excs': [shared_ if sc.get('shared_exc') else ItemError('round %d item %d failed' % (r, i)) for i in range(n)],
                      'values': [None if items[i].get('none') else ('value', r, i, 1000 + i) for i in range(n)],
                      'executed': [0] * n, 'finish_order': []})

    def work(i, tag=None):
        import threading
        st = work.state
        st['executed'][i] += 1
        threads_used.add(threading.get_ident())
        for _ in range(st['items'][i]['yields']):
            sched.yield_point('work', i)
        st['finish_order'].append(i)
        if st['items'][i]['fail']:
            raise st['excs'][i]
        return st['values'][i]

    def make_work(st):
        # each round gets its own function object bound to its own state (items of an aborted first call may still run)
        def w_(i, tag=None):
            import threading
            st['executed'][i] += 1
            threads_used.add(threading.get_ident())
            for _ in range(st['items'][i]['yields']):
                sched.yield_point('work', i)
            st['finish_order'].append(i)
            if st['items'][i]['fail']:
                raise st['excs'][i]
            return st['values'][i]
        kind = sc.get('callable', 'function')
        if kind == 'partial':
            import functools
            return functools.partial(w_)
        if kind == 'object':
            class Work(object):
                def __call__(self, i, tag=None):
                    return w_(i, tag)
            return Work()
        if kind == 'method':
            class Worker(object):
                def do(self, i, tag=None):
                    return w_(i, tag)
            return Worker().do
        return w_

    def _consume_like_a_call_site(pool, it, got):
        # cf. mapproxy/service/wms.py and mapproxy/cache/tile.py: `if result.exception: pool.shutdown(True); reraise(...)`
        try:
            for result in it:
                if result.exception:
                    pool.shutdown(True)
                    raise result.exception[1].with_traceback(result.exception[2])
                got.append(result)
        except ItemError as ex:
            info = sys.exc_info()       # noqa: F841 - frame -> info -> traceback -> frame: only the cyclic GC frees `it`
            # (the harness keeps the exception objects for identity checks: they must not keep the frames alive)
            ex.__traceback__ = None
            return True
        return False

    gc_at = set(sc.get('gc_at') or ())

    def on_yield(task, kind, key):
        if sched.steps in gc_at and len(outs) >= 1:
            import gc
            gc.collect()
            probes_gc[0] += 1
    probes_gc = [0]
    if gc_at:
        sched.on_yield = on_yield

    def caller():
        for r in range(len(rounds)):
            setup_round(r)
            st = dict(state)
            st['second_round'] = r > 0
            one_call(st, make_work(st))
            outs.append(st)

    def one_call(st, work):
        api = sc['api']
        n = st['n']
        kw = {'use_result_objects': True} if sc['result_objects'] else {}
        got = []
        raised = None
        out = st
        try:
            if api.startswith('pool.'):
                if 'pool' not in pool_holder:
                    pool_holder['pool'] = async_.ThreadPool(sc['pool'])
                pool = pool_holder['pool']
                if api == 'pool.map':
                    it = pool.map(work, list(range(n)), **kw)
                elif api == 'pool.imap':
                    it = pool.imap(work, list(range(n)), **kw)
                elif api == 'pool.starmap':
                    it = pool.starmap(work, [(i, 'x') for i in range(n)], **kw)
                else:
                    it = pool.starcall([(work, i, 'x') for i in range(n)], **kw)
            elif api == 'imap':
                it = async_.imap(work, list(range(n)))
            elif api == 'starmap':
                it = async_.starmap(work, [(i, 'x') for i in range(n)])
            else:
                it = async_.starcall([(work, i, 'x') for i in range(n)])
            if sc.get('abandon') and not out.get('second_round'):
                out['abandoned'] = _consume_like_a_call_site(pool, it, got)
            elif sc.get('leave_early') and not out.get('second_round'):
                for r in it:
                    got.append(r)
                    if len(got) >= sc['leave_early']:
                        break
                out['left_early'] = True
            else:
                for r in it:
                    got.append(r)
            it = None
        except ItemError as ex:
            raised = ex
        except Exception as ex:
            out['caller_exc'] = ex
        out['got'] = got
        out['raised'] = raised
        out['returned'] = True

    harness_err = None
    with w:
        sched.spawn(caller, 'caller', w.main_proc)
        try:
            outcome = w.run_tasks()
        except RuntimeError as ex:
            outcome = 'teardown-hang'
            harness_err = ex
        for t in sched.tasks:
            if t.exc is not None and t.name == 'caller':
                raise t.exc
    if harness_err is not None:
        raise harness_err

    v = None
    unspecified = 0
    name = '%s%s' % (sc['api'], ':objects' if sc['result_objects'] else ':raising')
    if len(outs) < len(rounds):
        v = {'sig': 'C15:hang:%s' % name, 'msg': 'call %d did not terminate: %s, blocked tasks %r' % (len(outs) + 1, outcome, sched.stuck_info)}
    for r, out in enumerate(outs):
        if v is not None:
            break
        n, items = out['n'], out['items']
        rname = name + (':second-call' if r else '')
        if n == 0 and 'caller_exc' in out and isinstance(out['caller_exc'], IndexError):
            # empty input: args[0] of an empty list - an input-space question (no schedule involved), not C15
            unspecified += 1
        elif 'caller_exc' in out and start_state['fired'] and isinstance(out['caller_exc'], RuntimeError) \
                and "can't start new thread" in str(out['caller_exc']):
            # the refusal was reported to the caller and the call ended: fine
            unspecified += 1
        elif 'caller_exc' in out:
            ex = out['caller_exc']
            v = {'sig': 'C15:unexpected-exception:%s:%s' % (type(ex).__name__, rname),
                 'msg': 'the call raised %r (not an exception of any item)' % (ex,)}
        elif out.get('left_early'):
            got = out['got']
            for j, g in enumerate(got):
                want_exc = out['excs'][j] if items[j]['fail'] else None
                if (want_exc is None and (g.exception is not None or g.result != out['values'][j])) or \
                        (want_exc is not None and (g.exception is None or g.exception[1] is not want_exc)):
                    v = {'sig': 'C15:wrong-prefix:%s' % rname, 'msg': 'result %d of the call that was left early is %s' % (j, _short(g))}
                    break
        elif out.get('abandoned'):
            # consumed up to the first failing result only: what was handed out must be the in-order prefix
            first_fail = min(i for i in range(n) if items[i]['fail'])
            got = out['got']
            if len(got) != first_fail or any(g.exception is not None or g.result != out['values'][i] for i, g in enumerate(got)):
                v = {'sig': 'C15:wrong-prefix:%s' % rname, 'msg': 'the call site received %r before the failing item %d' % (
                    [_short(g) for g in got], first_fail)}
        else:
            v, u = _oracle(sc, out, n, items, out['excs'], out['values'], out['executed'], rname)
            unspecified += u
    if v is None and sched.unexpected:
        v = {'sig': 'C15:worker-died:%s' % name, 'msg': 'a worker thread died: %r' % (sched.unexpected,)}
    leaked = sum(1 for t in sched.tasks if t.state != 3)
    probes = {}
    if leaked:
        probes['workers_left_blocked_after_call'] = leaked
    first = outs[0] if outs else {'finish_order': [], 'n': 0, 'items': []}
    finish_order = first['finish_order']
    n = first['n']
    reordered = finish_order != sorted(finish_order)
    if reordered:
        probes['completion_order_differs_from_input'] = 1
    if len(finish_order) == n and n > 0:
        probes['perm_' + ''.join(map(str, finish_order))] = 1 if n == 6 else 0
    if len(rounds) > 1:
        probes['pool_used_twice'] = 1
    if start_state['fired']:
        probes['thread_start_refused'] = 1
    if sc.get('callable', 'function') != 'function':
        probes['callable_' + sc['callable']] = 1
    if sched.line_yields:
        probes['thread_switches_between_statements'] = sched.line_yields
    if probes_gc[0]:
        probes['gc_runs_during_second_call'] = probes_gc[0]
    if outs and outs[0].get('abandoned'):
        probes['first_call_abandoned_at_failing_result'] = 1
    if outs and outs[0].get('left_early'):
        probes['first_call_left_early'] = 1
    nontrivial = len(threads_used) >= 2 and (reordered or any(i['fail'] for i in first['items']))
    return {'violation': v, 'digest': C.digest_of(sc['api'], sc['pool'], sc['result_objects'], rounds, sched.log),
            'nontrivial': nontrivial, 'steps': sched.steps, 'sim_time': 0.0, 'faults': {},
            'probes': dict((k, v2) for k, v2 in probes.items() if v2), 'unspecified': unspecified,
            'sample': {'api': name, 'pool': sc['pool'], 'items': first['items'], 'finish_order': finish_order,
                       'result': [_short(r) for r in first.get('got', [])], 'raised': repr(first.get('raised')),
                       'second_call': bool(sc.get('second'))}}


def _short(r):
    if hasattr(r, 'result') and hasattr(r, 'exception'):
        return {'result': repr(r.result), 'exception': repr(r.exception[1]) if r.exception else None}
    return repr(r)


def _oracle(sc, out, n, items, excs, values, executed, name):
    got, raised = out['got'], out['raised']
    unspecified = 0
    for i in range(n):
        if executed[i] > 1:
            return {'sig': 'C15:item-run-twice:%s' % name, 'msg': 'item %d was executed %d times' % (i, executed[i])}, 0
    failing = [i for i in range(n) if items[i]['fail']]
    if sc['result_objects']:
        if raised is not None:
            return {'sig': 'C15:raised-in-object-mode:%s' % name, 'msg': 'result-object mode raised %r' % (raised,)}, 0
        if len(got) != n:
            return {'sig': 'C15:wrong-count:%s' % name, 'msg': 'expected %d results, got %d: %r' % (
                n, len(got), [_short(r) for r in got])}, 0
        for i, r in enumerate(got):
            if not (hasattr(r, 'result') and hasattr(r, 'exception')):
                return {'sig': 'C15:not-a-result-object:%s' % name, 'msg': 'slot %d holds %r' % (i, r)}, 0
            if items[i]['fail']:
                ok = r.exception is not None and len(r.exception) == 3 and r.exception[1] is excs[i] and r.result is None
                if not ok:
                    return {'sig': 'C15:misattributed:%s' % name,
                            'msg': 'slot %d should report the exception of item %d, holds %s' % (i, i, _short(r))}, 0
            else:
                if r.exception is not None or r.result != values[i]:
                    return {'sig': 'C15:misattributed:%s' % name,
                            'msg': 'slot %d should hold the value of item %d, holds %s' % (i, i, _short(r))}, 0
            if executed[i] != 1:
                return {'sig': 'C15:item-not-run:%s' % name, 'msg': 'item %d executed %d times' % (i, executed[i])}, 0
        return None, 0
    # raising mode
    if not failing:
        if raised is not None:
            return {'sig': 'C15:spurious-raise:%s' % name, 'msg': 'no item fails but %r was raised' % (raised,)}, 0
        if got != values:
            return {'sig': 'C15:wrong-results:%s' % name, 'msg': 'expected %r, got %r' % (values, got)}, 0
        return None, 0
    first = failing[0]
    if raised is None:
        # sequential paths (pool < 2 with several items) return exc_info tuples in the slot instead of raising
        ok = len(got) == n
        if ok:
            for i, r in enumerate(got):
                if items[i]['fail']:
                    ok = ok and isinstance(r, tuple) and len(r) == 3 and r[1] is excs[i]
                else:
                    ok = ok and r == values[i]
        eff_pool = sc['pool'] if sc['api'].startswith('pool.') else min(n, 20)
        if ok and eff_pool < 2:
            return None, 1
        return {'sig': 'C15:swallowed:%s' % name,
                'msg': 'items %r fail but nothing was raised and the results are %r' % (failing, [_short(r) for r in got])}, 0
    if not any(raised is excs[i] for i in failing):
        return {'sig': 'C15:foreign-exception:%s' % name, 'msg': 'raised %r is not the exception of a failing item' % (raised,)}, 0
    if len(got) > first or got != values[:len(got)]:
        return {'sig': 'C15:wrong-prefix:%s' % name,
                'msg': 'before raising, the call yielded %r; expected an in-order prefix of the results before the first '
                       'failing item %d' % (got, first)}, 0
    return None, unspecified


def evidence_extra(total):
    perms = [k for k in total['probes'] if k.startswith('perm_')]
    p = dict((k, v) for k, v in total['probes'].items() if not k.startswith('perm_'))
    p['distinct_completion_orders_of_6_items'] = len(perms)
    return {'probes': p}


if __name__ == '__main__':
    import checks.c15 as me
    from simkit import driver
    driver.main(me)
