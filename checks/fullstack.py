"""full-stack plumbing: MapProxy WSGI app from a config dict through the real loader, with
HTTPClient.open replaced by a simulated upstream HTTP server"""
import sys
from io import BytesIO
from urllib.parse import urlparse, parse_qs

from checks import upstream as U


def base_conf(cache_conf, meta_size=(1, 1), refresh_before=None, on_error_color='#ff0000', layer='lay', link=False):
    cache = {'grids': ['g'], 'sources': ['src'], 'format': 'image/png', 'meta_size': list(meta_size),
             'meta_buffer': 0, 'cache': cache_conf, 'image': {'colors': 0, 'mode': 'RGB'}}
    if link:
        cache['link_single_color_images'] = link
    if refresh_before:
        cache['refresh_before'] = refresh_before
    return {
        'services': {'tms': {}, 'kml': {}, 'wmts': {'restful': True, 'kvp': True},
                     'wms': {'srs': ['EPSG:3857'], 'md': {'title': 'sim'}}},
        'layers': [{'name': layer, 'title': 'sim layer', 'sources': ['c1']}],
        'caches': {'c1': cache},
        'sources': {'src': {'type': 'wms', 'req': {'url': 'http://upstream.sim/service?', 'layers': 'a'},
                            'supported_srs': ['EPSG:3857'],
                            'on_error': {500: {'response': on_error_color, 'cache': False}}}},
        'grids': {'g': {'srs': 'EPSG:3857', 'tile_size': [U.TS, U.TS], 'num_levels': 5, 'origin': 'll'}},
        'globals': {'cache': {'base_dir': '/simfs/cache', 'lock_dir': '/simfs/locks', 'tile_lock_dir': '/simfs/tilelocks'},
                    'image': {'paletted': False}},
    }


def url_for(service, coord, layer='lay'):
    """request (path, query) for the internal tile coordinate (x, y, z) of grid 'g' (origin ll, z >= 1)"""
    x, y, z = coord
    n = 1 << z
    if service == 'tms':
        return '/tms/1.0.0/%s/EPSG3857/%d/%d/%d.png' % (layer, z - 1, x, y), ''
    if service == 'kml':
        return '/kml/%s/EPSG3857/%d/%d/%d.png' % (layer, z, x, y), ''
    if service == 'wmts':
        return '/wmts/%s/g/%02d/%d/%d.png' % (layer, z, x, n - 1 - y), ''
    if service == 'wmtskvp':
        return '/service', ('service=WMTS&request=GetTile&version=1.0.0&layer=%s&style=&tilematrixset=g&tilematrix=%02d'
                            '&tilerow=%d&tilecol=%d&format=image/png' % (layer, z, n - 1 - y, x))
    size = 2 * U.H / n
    k = 2 if service == 'wms4' else 1
    return '/service', ('service=WMS&request=GetMap&version=1.1.1&layers=%s&styles=&srs=EPSG:3857&bbox=%r,%r,%r,%r'
                        '&width=%d&height=%d&format=image/png%s' % (
                            layer, -U.H + x * size, -U.H + y * size, -U.H + (x + k) * size, -U.H + (y + k) * size,
                            U.TS * k, U.TS * k, '&tiled=true' if k == 1 else ''))


def make_app(conf):
    from mapproxy.config.loader import ProxyConfiguration
    from mapproxy.wsgiapp import MapProxyApp
    pc = ProxyConfiguration(conf, conf_base_dir='/simfs/conf')
    return MapProxyApp(pc.configured_services(), pc.base_config), pc


def make_conf(conf):
    from mapproxy.config.loader import ProxyConfiguration
    return ProxyConfiguration(conf, conf_base_dir='/simfs/conf')


class _NullErrors(object):
    """wsgi.errors sink: the application logs the traceback of every 500 it answers there"""
    def write(self, s):
        pass

    def writelines(self, seq):
        pass

    def flush(self):
        pass


def wsgi_get(app, path, query='', headers=None):
    environ = {
        'REQUEST_METHOD': 'GET', 'SCRIPT_NAME': '', 'PATH_INFO': path, 'QUERY_STRING': query,
        'SERVER_NAME': 'localhost', 'SERVER_PORT': '80', 'HTTP_HOST': 'localhost', 'SERVER_PROTOCOL': 'HTTP/1.1',
        'wsgi.version': (1, 0), 'wsgi.url_scheme': 'http', 'wsgi.input': BytesIO(b''), 'wsgi.errors': _NullErrors(),
        'wsgi.multithread': True, 'wsgi.multiprocess': True, 'wsgi.run_once': False,
    }
    for k, v in (headers or {}).items():
        environ['HTTP_' + k.upper().replace('-', '_')] = v
    out = {}

    def start_response(status, hdrs, exc_info=None):
        out['status'] = status
        out['headers'] = hdrs
    it = app(environ, start_response)
    try:
        body = b''.join(it)
    finally:
        if hasattr(it, 'close'):
            it.close()
    hd = {}
    for k, v in out['headers']:
        hd[k.lower()] = v
    return int(out['status'].split()[0]), hd, body


class SimHTTPResponse(object):
    def __init__(self, body, content_type='image/png', code=200):
        self._b = BytesIO(body)
        self.headers = {'content-type': content_type, 'Content-type': content_type}
        self.code = code

    def read(self, *a):
        return self._b.read(*a)

    def close(self):
        pass


class SimHTTP(object):
    """replacement for mapproxy.client.http.HTTPClient.open"""

    def __init__(self, world):
        self.world = world
        self.log = []
        self.gen = 0
        self.fail_code = None
        self.plan = None
        self.transparent_layers = None       # set of upstream layer names answered with a fully transparent image
        self.fail_layers = None  # None = every upstream request fails while fail_code is set, else a set of layer names
        self.ocean = False       # False | True | (r, g, b): colour of the constant-colour 'ocean' tiles

    def open(self, client, url, data=None, method=None):
        from mapproxy.client.http import HTTPClientError
        from PIL import Image
        q = dict((k.lower(), v[0]) for k, v in parse_qs(urlparse(url).query).items())
        self.gen += 1
        gen = self.gen
        sched = self.world.sched
        me = sched._me() if sched is not None else None
        entry = {'gen': gen, 'url': url, 'layers': q.get('layers'), 'ok': None, 't': self.world.clock.now, 't0': self.world.clock.now,
                 'task': me.name if me else None, 'proc': me.proc.name if me else None,
                 'seq0': len(sched.log) if sched is not None else 0}
        try:
            entry['bbox'] = tuple(float(x) for x in q['bbox'].split(','))
            entry['size'] = (int(q['width']), int(q['height']))
        except (KeyError, ValueError):
            entry['bbox'], entry['size'] = None, None
        self.log.append(entry)
        plan = self.plan(entry) if self.plan is not None else {'yields': 0, 'latency': 0.001, 'fail': False}
        if sched is not None:
            sched.yield_point('http', gen)
            for _ in range(plan.get('yields', 0)):
                sched.yield_point('http-wait', gen)
        import time
        if plan.get('latency'):
            time.sleep(plan['latency'])
        entry['t1'] = self.world.clock.now
        entry['seq1'] = len(sched.log) if sched is not None else 0
        if (self.fail_code and (self.fail_layers is None or q.get('layers') in self.fail_layers)) or plan.get('fail'):
            entry['ok'] = False
            code = self.fail_code or 500
            entry['code'] = code
            raise HTTPClientError('HTTP Error "%s": %d' % (url, code), response_code=code)
        if sched is not None:
            sched.check_alive()
        if self.transparent_layers and q.get('layers') in self.transparent_layers:
            img = Image.new('RGBA', entry['size'], (0, 0, 0, 0))        # an overlay layer with nothing to show here
        else:
            img = Image.frombytes('RGB', entry['size'], U.render(entry['bbox'], entry['size'], gen, ocean=self.ocean))
        buf = BytesIO()
        img.save(buf, 'PNG')
        entry['ok'] = True
        return SimHTTPResponse(buf.getvalue())
