"""A scheduler-aware stand-in for the `sqlite3` module as a mapproxy cache module sees it.

The database itself stays the real SQLite library on a real (tmpfs) file. What the simulator owns is *when* each call
happens and how long a connection waits for a lock:

 - every call on a connection or cursor (connect, cursor, execute, executemany, fetch*, iteration, commit, rollback,
   close) is a pre-emption point of the baton scheduler, so another request thread can run between a cursor() and the
   commit() that belongs to it;
 - the real connection is opened with a busy timeout of 0, so SQLITE_BUSY comes back at once; the busy handler is
   re-implemented here in simulated time: sleep a little (other tasks run), try again, give up with the original
   OperationalError once the connection's timeout of simulated seconds has passed.  No real-time wait is left.

Install with  world.extra_patches.append((mapproxy.cache.mbtiles, 'sqlite3', SimSqlite(world)))
"""
import sqlite3 as _real
import time


class SimSqlite(object):
    def __init__(self, world, busy_step=0.01):
        self._world = world
        self._busy_step = busy_step
        self.probes = {}
        self.connections = []

    def __getattr__(self, name):
        return getattr(_real, name)

    # -- helpers -------------------------------------------------------
    def _yield(self, what, key=None):
        s = self._world.sched
        if s is not None and s.in_task():
            s.yield_point('sql-' + what, key)

    def _count(self, k):
        self.probes[k] = self.probes.get(k, 0) + 1

    def _call(self, conn, what, fn):
        """one SQLite call with the busy handler in simulated time"""
        clock = self._world.clock
        t0 = clock.now
        while True:
            self._yield(what, conn._name)
            try:
                return fn()
            except _real.OperationalError as ex:
                msg = str(ex)
                if 'locked' not in msg and 'busy' not in msg:
                    raise
                self._count('sqlite_busy')
                s = self._world.sched
                if s is None or not s.in_task() or clock.now - t0 >= conn._timeout:
                    self._count('sqlite_busy_timeout')
                    raise
                del ex
                time.sleep(self._busy_step)

    # -- module API ----------------------------------------------------
    def connect(self, database, timeout=5.0, *args, **kw):
        self._yield('connect', str(database))
        real = _real.connect(database, 0, *args, **kw)
        self._count('sqlite_connections')
        c = Connection(self, real, timeout, str(database))
        return c


class Connection(object):
    def __init__(self, mod, real, timeout, name):
        object.__setattr__(self, '_mod', mod)
        object.__setattr__(self, '_real', real)
        object.__setattr__(self, '_timeout', timeout)
        object.__setattr__(self, '_name', name.rsplit('/', 1)[-1])

    def __getattr__(self, name):
        return getattr(self._real, name)

    def __setattr__(self, name, value):
        setattr(self._real, name, value)

    def cursor(self, *a, **kw):
        self._mod._yield('cursor', self._name)
        return Cursor(self, self._real.cursor(*a, **kw))

    def execute(self, sql, *params):
        cur = self.cursor()
        return cur.execute(sql, *params)

    def executemany(self, sql, seq):
        cur = self.cursor()
        return cur.executemany(sql, seq)

    def executescript(self, script):
        self._mod._call(self, 'executescript', lambda: self._real.executescript(script))

    def commit(self):
        if self._real.in_transaction:
            self._mod._count('sqlite_commits_of_open_transaction')
        return self._mod._call(self, 'commit', self._real.commit)

    def rollback(self):
        return self._mod._call(self, 'rollback', self._real.rollback)

    def close(self):
        self._mod._yield('close', self._name)
        return self._real.close()

    def __enter__(self):
        return self

    def __exit__(self, typ, val, tb):
        if typ is None:
            self.commit()
        else:
            self.rollback()
        return False


class Cursor(object):
    def __init__(self, conn, real):
        self._conn = conn
        self._real = real

    def __getattr__(self, name):
        return getattr(self._real, name)

    def execute(self, sql, *params):
        self._conn._mod._call(self._conn, 'execute', lambda: self._real.execute(sql, *params))
        return self

    def executemany(self, sql, seq):
        seq = list(seq)
        self._conn._mod._call(self._conn, 'executemany', lambda: self._real.executemany(sql, seq))
        return self

    def fetchone(self):
        return self._conn._mod._call(self._conn, 'fetch', self._real.fetchone)

    def fetchall(self):
        return self._conn._mod._call(self._conn, 'fetch', self._real.fetchall)

    def fetchmany(self, *a):
        return self._conn._mod._call(self._conn, 'fetch', lambda: self._real.fetchmany(*a))

    def __iter__(self):
        return self

    def __next__(self):
        return self._conn._mod._call(self._conn, 'fetch', self._real.__next__)

    def close(self):
        return self._real.close()
