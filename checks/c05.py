"""C05 - every cache backend behaves like a map from tile address to bytes.

Sequential histories (no scheduler): real backend objects against a dict reference model,
compared operation by operation plus a sweep over the whole address pool after every
mutation.  File and compact backends live on SimFS (so an I/O-fault configuration exists);
sqlite-based backends live on a real tmpfs directory (outside the seams, fault-free only).
"""
import copy
import errno
import os
import shutil
import sys

sys.path.insert(0, os.path.dirname(os.path.dirname(os.path.abspath(__file__))))

from simkit.world import World  # noqa: E402
from checks import common as C  # noqa: E402
from checks import cachemodel as M  # noqa: E402

PROP = 'C05'
LEVEL = 'exploration'
VERSION = 1
BUDGET = {'quick': 50, 'thorough': 600}
CHUNK = {'quick': 15, 'thorough': 30}
RULE = ('one case = one seeded history of 5-60 store / bulk store / load / load with metadata / bulk load / is_cached / '
        'remove / bulk remove / reopen / switch-to-a-second-cache-object-on-the-same-store (another process\'s view; the '
        'first object stays open) operations over <= 12 addresses drawn from a collision catalogue (level 0, bundle borders 127/128, path digit '
        'groups 999/1000, 9999/10000, 999999/1000000, equal x/y at different levels, x/y swapped, dimension sets '
        'differing in one value, equal single colours) on one backend+layout, optionally with one injected I/O error '
        'inside a mutating call; non-trivial = the history overwrote or removed a present address and later read it '
        '(or a colliding one) back; distinct = distinct (backend, operation list, fault) hash; about one case in 200 instead '
        'runs a three-phase history in three separately started interpreters (different hash seeds) on a real directory, and '
        'about one in eight is a concurrent-writers case (2-3 processes or threads, disjoint colliding addresses, file/compact backends); '
        'bulk stores may name one address twice; about 4 % of the compact histories run on tmpfs with every bundle extended sparsely beyond 4 GiB')
COMPONENTS = {
    'real': ['mapproxy.cache.file.FileCache + cache/path.py (all layouts, symlink/hardlink, dimensions)',
             'mapproxy.cache.compact.CompactCacheV1/V2', 'mapproxy.cache.mbtiles.MBTilesCache/MBTilesLevelCache',
             'mapproxy.cache.geopackage.GeopackageCache/GeopackageLevelCache', 'sqlite3', 'PIL', 'CPython io'],
    'stub': ['file system for file/compact backends (SimFS)', 'clock'],
    'outside_the_seams': ['sqlite file I/O on a real tmpfs directory (fault-free histories only)',
                          'across-interpreter cases: three real python subprocesses with different PYTHONHASHSEED on a real tmpfs directory'],
}
ASSUMPTIONS = [
    'addresses are valid grid addresses (x, y < 2**z); dimension values are plain values or ISO intervals with one solidus (no '
    '.. components, no leading separators: that is C09)',
    'single-colour payloads are byte-identical for equal colour, so link sharing is legitimate',
    'I/O-fault configuration: the failing call may leave its own addresses old, new or missing - never anything else',
]

BACKENDS = (
    [({'type': 'file', 'layout': l, 'link': None}, 3) for l in ('tc', 'mp', 'tms', 'reverse_tms', 'quadkey', 'arcgis')] +
    [({'type': 'file', 'layout': 'tc', 'link': 'symlink'}, 3), ({'type': 'file', 'layout': 'tms', 'link': 'hardlink'}, 3),
     ({'type': 'file', 'layout': 'mp', 'link': 'symlink'}, 1), ({'type': 'file', 'layout': 'quadkey', 'link': 'hardlink'}, 1),
     ({'type': 'compact', 'version': 1}, 5), ({'type': 'compact', 'version': 2}, 5),
     ({'type': 'mbtiles'}, 4), ({'type': 'sqlite'}, 5), ({'type': 'geopackage'}, 3), ({'type': 'geopackage_level'}, 4)]
)
_seq = [0]


XPROC_SCRIPT = r'''
import json, sys, hashlib
spec = json.loads(sys.argv[1])
sys.path.insert(0, spec['verif'])
from checks import common as C
b = dict(spec['backend'])
if b['type'].startswith('geopackage'):
    from mapproxy.grid import tile_grid
    b['grid'] = tile_grid(3857, origin='nw')
cache = C.make_cache(b, spec['dir'])
out = []
for op in spec['ops']:
    dims = op[2]
    kw = {'dimensions': dims} if dims is not None else {}
    if op[0] == 'store':
        r = cache.store_tile(C.make_tile(op[1], C.payload(op[3])), **kw)
        out.append(r is not False)
    elif op[0] == 'remove':
        cache.remove_tile(C.make_tile(op[1]), **kw)
        out.append(None)
    else:
        t = C.make_tile(op[1])
        cache.load_tile(t, **kw)
        data = C.read_tile_bytes(t) if t.source is not None else None
        out.append(None if data is None else hashlib.sha256(data).hexdigest())
if hasattr(cache, 'cleanup'):
    cache.cleanup()
print(json.dumps(out))
'''


def _gen_xproc(t):
    b = copy.deepcopy(t.weighted(BACKENDS))
    pool = []
    start = t.choice(len(M.CATALOGUE))
    for i in range(t.randint(3, 8)):
        c = M.CATALOGUE[(start + i) % len(M.CATALOGUE)]
        if c not in pool:
            pool.append(c)
    dims = t.pick(M.DIMSETS[1:] + [M.DIMSETS[4]] * 3) if b['type'] == 'file' and t.chance(0.6) else None
    phases = []
    for _ in range(3):
        ops = []
        for _ in range(t.randint(2, 6)):
            k = t.weighted([('store', 5), ('remove', 1), ('load', 2)])
            c = t.pick(pool)
            d = dims if t.chance(0.5) else None
            ops.append([k, c, d] + ([M.gen_payload(t, b.get('link'))] if k == 'store' else []))
        phases.append({'hashseed': t.randint(1, 4000), 'ops': ops})
    return {'kind': 'xproc', 'backend': b, 'pool': pool, 'dims': dims, 'phases': phases}


def _run_xproc(sc, tape):
    """the same store used by separately started interpreters one after the other (server restarts, seeding tool and
    server): what one stored the next one loads - nothing about an address may depend on the interpreter"""
    import hashlib
    import json
    import subprocess
    import mapproxy
    b = sc['backend']
    name = C.backend_name(b)
    d = _real_dir()
    model = {}
    v = None
    n = 0
    try:
        for pi, ph in enumerate(sc['phases']):
            ops = list(ph['ops'])
            if pi == len(sc['phases']) - 1:
                ops += [['load', c, dd] for c in sc['pool'] for dd in ([None, sc['dims']] if sc['dims'] else [None])]
            spec = {'verif': os.path.dirname(os.path.dirname(os.path.abspath(__file__))), 'backend': b, 'dir': d + '/cache', 'ops': ops}
            env = dict(os.environ, PYTHONHASHSEED=str(ph['hashseed']),
                       PYTHONPATH=os.path.dirname(os.path.dirname(os.path.abspath(mapproxy.__file__))))
            pr = subprocess.run([sys.executable, '-B', '-c', XPROC_SCRIPT, json.dumps(spec)], env=env, stdout=subprocess.PIPE,
                                stderr=subprocess.PIPE, timeout=300)
            if pr.returncode != 0:
                raise RuntimeError('xproc helper failed: %s' % pr.stderr.decode('utf-8', 'replace')[-1500:])
            outs = json.loads(pr.stdout.decode().strip().splitlines()[-1])
            for op, out in zip(ops, outs):
                key = M.akey(op[1], op[2])
                if op[0] == 'store':
                    if not out:
                        v = {'sig': 'C05:store-failed:%s:across-interpreters' % name,
                             'msg': 'interpreter %d: store_tile%s returned %r' % (pi, (tuple(op[1]), op[2]), out)}
                        break
                    model[key] = hashlib.sha256(C.payload(op[3])).hexdigest()
                elif op[0] == 'remove':
                    model.pop(key, None)
                else:
                    n += 1
                    if out != model.get(key):
                        kind = 'lost' if out is None else ('phantom' if model.get(key) is None else 'wrong-bytes')
                        v = {'sig': 'C05:%s:%s:across-interpreters' % (kind, name),
                             'msg': 'interpreter %d (PYTHONHASHSEED=%s) loads address %s dims %s: sha256 %s, but the latest store '
                                    '(by an earlier interpreter or this one) was %s' % (pi, ph['hashseed'], tuple(op[1]), op[2],
                                                                                       out and out[:12], model.get(key) and model.get(key)[:12])}
                        break
            if v:
                break
    finally:
        shutil.rmtree(d, ignore_errors=True)
    return {'violation': v, 'digest': C.digest_of('xproc', b, sc['phases']), 'nontrivial': True, 'steps': n, 'sim_time': 0.0,
            'faults': {}, 'probes': {'across_interpreters': 1},
            'sample': {'backend': name, 'mode': 'across-interpreters', 'phases': len(sc['phases'])}}


def _gen_conc(t):
    """the map behaviour with several writers at once: 2-3 processes (or threads sharing one cache object), each working on
    addresses of its own that collide with the others' in the backend's internal addressing (same bundle, same directory,
    same single colour)"""
    b = copy.deepcopy(t.weighted([(x, w_) for x, w_ in BACKENDS if x['type'] in ('file', 'compact')]))
    start = t.choice(len(M.CATALOGUE))
    pool = []
    for i in range(t.randint(4, 9)):
        c = M.CATALOGUE[(start + i) % len(M.CATALOGUE)] if t.chance(0.8) else t.pick(M.CATALOGUE)
        if c not in pool:
            pool.append(c)
    nproc = t.randint(2, 3)
    procs = []
    for p in range(nproc):
        mine = [c for i, c in enumerate(pool) if i % nproc == p]
        ops = []
        for _ in range(t.randint(1, 4)):
            if not mine:
                break
            k = t.weighted([('store', 6), ('store_many', 2), ('remove', 1), ('load', 2)])
            if k == 'store':
                ops.append(['store', t.pick(mine), None, M.gen_payload(t, b.get('link'))])
            elif k == 'store_many':
                ops.append(['store_many', None, [[c, M.gen_payload(t, b.get('link'))] for c in M._distinct(t, mine, t.randint(1, 3))]])
            elif k == 'remove':
                ops.append(['remove', t.pick(mine), None])
            else:
                ops.append(['load', t.pick(mine), None])
        procs.append(ops)
    return {'kind': 'conc', 'backend': b, 'pool': pool, 'procs': procs, 'threads': bool(t.chance(0.3)),
            'policy': t.pick([['random'], ['sticky', 0.3], ['sticky', 0.6]]), 'bufsize': t.pick([4096, 8192])}


def _run_conc(sc, tape):
    from simkit.sched import SimAbort, SimCrash
    b = sc['backend']
    name = C.backend_name(b)
    w = World(tape, policy=tuple(sc['policy']), step_cap=300000, eager_time=True)
    sched = w.sched
    viol = []
    finals = []
    for ops in sc['procs']:
        last = {}
        for op in ops:
            if op[0] == 'store':
                last[tuple(op[1])] = C.payload(op[3])
            elif op[0] == 'store_many':
                for c, p in op[2]:
                    last[tuple(c)] = C.payload(p)
            elif op[0] == 'remove':
                last[tuple(op[1])] = None
        finals.append(last)
    v = None
    with w:
        w.fs.buffer_size = sc['bufsize']
        shared_cache = C.make_cache(b) if sc['threads'] else None

        def proc_fn(pi, ops):
            def fn():
                cache = shared_cache if shared_cache is not None else C.make_cache(b)
                mine = {}
                for i, op in enumerate(ops):
                    what = 'writer %d op#%d %s' % (pi, i, M._opstr(op))
                    try:
                        if op[0] == 'store':
                            cache.store_tile(C.make_tile(op[1], C.payload(op[3])))
                            mine[tuple(op[1])] = C.payload(op[3])
                        elif op[0] == 'store_many':
                            cache.store_tiles([C.make_tile(c, C.payload(p)) for c, p in op[2]])
                            for c, p in op[2]:
                                mine[tuple(c)] = C.payload(p)
                        elif op[0] == 'remove':
                            cache.remove_tile(C.make_tile(op[1]))
                            mine[tuple(op[1])] = None
                        else:
                            t_ = C.make_tile(op[1])
                            cache.load_tile(t_)
                            sched.check_alive()
                            got = C.read_tile_bytes(t_) if t_.source is not None else None
                            if tuple(op[1]) in mine and got != mine[tuple(op[1])]:
                                viol.append(('concurrent-read', '%s: returns %s, this writer\'s latest store there was %s (nobody else '
                                             'touches that address)' % (what, C.describe(got), C.describe(mine[tuple(op[1])]))))
                                sched.abort('violation')
                    except (SimAbort, SimCrash):
                        raise
                    except Exception as ex:
                        import traceback
                        viol.append(('concurrent-raises:' + type(ex).__name__, '%s raised %r\n%s' % (
                            what, ex, ''.join(traceback.format_tb(ex.__traceback__)[-3:]))))
                        sched.abort('violation')
            return fn
        server = w.new_proc('server') if sc['threads'] else None
        for pi, ops in enumerate(sc['procs']):
            sched.spawn(proc_fn(pi, ops), 'w%d' % pi, server or w.new_proc('p%d' % pi))
        outcome = w.run_tasks()
        for t_ in sched.tasks:
            if t_.exc is not None and not isinstance(t_.exc, (SimAbort, SimCrash)):
                raise t_.exc
        if viol:
            v = {'sig': 'C05:%s:%s' % (viol[0][0], name), 'msg': viol[0][1]}
        elif outcome != 'done':
            v = {'sig': 'C05:concurrent-hang:%s' % name, 'msg': 'writers did not terminate: %s %r' % (outcome, sched.stuck_info)}
        else:
            w.fs.sched = None
            fresh = C.make_cache(b)
            for pi, last in enumerate(finals):
                for c, exp in sorted(last.items()):
                    t_ = C.make_tile(c)
                    fresh.load_tile(t_)
                    got = C.read_tile_bytes(t_) if t_.source is not None else None
                    if got != exp:
                        kind = 'lost' if got is None else ('phantom' if exp is None else 'wrong-bytes')
                        v = {'sig': 'C05:concurrent-%s:%s' % (kind, name),
                             'msg': 'at quiescence address %s returns %s; its only writer (writer %d) last stored %s there; writers: %s' % (
                                 c, C.describe(got), pi, C.describe(exp), [[M._opstr(o) for o in ops] for ops in sc['procs']])}
                        break
                if v:
                    break
    return {'violation': v, 'digest': C.digest_of('conc', b, sc['procs'], sched.log), 'nontrivial': len(sc['procs']) > 1,
            'steps': sched.steps, 'sim_time': 0.0, 'faults': {}, 'probes': {'concurrent_writers': 1, 'backend_' + name: 1},
            'sample': {'backend': name, 'mode': 'concurrent', 'threads': sc['threads'],
                       'writers': [[M._opstr(o) for o in ops] for ops in sc['procs']]}}


def gen(t, tier):
    if t.chance(0.005):
        return _gen_xproc(t)
    if t.chance(0.12):
        return _gen_conc(t)
    b = copy.deepcopy(t.weighted(BACKENDS))
    npool = t.randint(3, 12)
    # bias the pool to neighbouring catalogue entries (they are the ones that collide)
    start = t.choice(len(M.CATALOGUE))
    pool = []
    for i in range(npool):
        c = M.CATALOGUE[(start + i) % len(M.CATALOGUE)] if t.chance(0.7) else t.pick(M.CATALOGUE)
        if c not in pool:
            pool.append(c)
    if b['type'] == 'file' and t.chance(0.5):
        dimsets = [None] + [t.pick(M.DIMSETS[1:]) for _ in range(t.randint(1, 2))]
        dimsets = [d for i, d in enumerate(dimsets) if d not in dimsets[:i]]
    else:
        dimsets = [None]
    nops = t.randint(5, 25) if tier == 'quick' else t.randint(5, 60)
    sc = {'backend': b, 'pool': pool, 'dimsets': dimsets,
          'ops': M.gen_history(t, nops, pool, dimsets, b.get('link'), bulk_big=b['type'] != 'file' and t.chance(0.3),
                               big_payloads=b['type'] == 'compact'),
          'fault': None, 'bufsize': t.pick([4096, 8192])}
    if b['type'] in ('file', 'compact') and t.chance(0.3):
        sc['fault'] = {'errno': t.pick(['EIO', 'ENOSPC', 'EACCES', 'short'])}
        if sc['fault']['errno'] in ('EIO', 'ENOSPC') and t.chance(0.5):
            sc['fault']['sticky'] = True
    if b['type'] == 'file' and b.get('link') and t.chance(0.3):
        # the configured cache directory leads through a symbolic link to a directory at another depth of the tree
        # (/var/cache/mapproxy -> /mnt/vol1/data/mapproxy): relative links between tiles must still resolve
        sc['linked_dir'] = True
    if b['type'] == 'compact' and not sc['fault'] and t.chance(0.06):
        # the bundles of this cache have grown beyond 4 GiB (40-bit offsets): the history runs on a real tmpfs directory and
        # after the operation with this number every bundle file is extended - sparsely - past the 32-bit limit
        sc['huge'] = {'at': t.choice(min(4, nops)), 'extra': t.pick([1000, 12345, 70000, (1 << 31) + 999])}
    return sc


def shrink(sc):
    if sc.get('kind') == 'conc':
        for p in range(len(sc['procs'])):
            for i in range(len(sc['procs'][p])):
                c = copy.deepcopy(sc)
                del c['procs'][p][i]
                yield c
        if sc['policy'] != ['sticky', 0.3]:
            c = copy.deepcopy(sc)
            c['policy'] = ['sticky', 0.3]
            yield c
        return
    if sc.get('kind') == 'xproc':
        for i in range(len(sc['phases'])):
            for j in range(len(sc['phases'][i]['ops'])):
                c = copy.deepcopy(sc)
                del c['phases'][i]['ops'][j]
                yield c
        return
    for c in M.shrink_ops(sc):
        yield c
    if len(sc['dimsets']) > 1:
        for i in range(1, len(sc['dimsets'])):
            c = copy.deepcopy(sc)
            d = c['dimsets'].pop(i)
            c['ops'] = [op for op in c['ops'] if not (op[0] in ('store', 'load', 'is_cached', 'remove', 'load_meta') and op[2] == d)
                        and not (op[0] in ('store_many', 'load_many', 'remove_many') and op[1] == d)]
            yield c
    used = []
    for op in sc['ops']:
        if op[0] in ('store', 'load', 'is_cached', 'remove', 'load_meta'):
            used.append(op[1])
        elif op[0] == 'remove_many':
            used.extend(op[2])
        elif op[0] == 'store_many':
            used.extend(c for c, p in op[2])
        elif op[0] == 'load_many':
            used.extend(op[2])
    np = [c for c in sc['pool'] if c in used]
    if len(np) < len(sc['pool']):
        c = copy.deepcopy(sc)
        c['pool'] = np
        yield c


def _real_dir():
    _seq[0] += 1
    from simkit.world import _REAL
    d = '/dev/shm/verif-c05-%d-%d' % (_REAL['os.getpid'](), _seq[0])
    os.makedirs(d)
    return d


def run(sc, tape):
    if sc.get('kind') == 'xproc':
        return _run_xproc(sc, tape)
    if sc.get('kind') == 'conc':
        return _run_conc(sc, tape)
    b = sc['backend']
    name = C.backend_name(b)
    onsim = b['type'] in ('file', 'compact') and not sc.get('huge')
    realdir = None
    fault = sc.get('fault')
    faults = {}
    probes = {}

    def attempt(fire_at):
        nonlocal realdir
        w = World(tape, with_sched=False)
        state = {'n': 0, 'fired': False}
        with w:
            w.fs.buffer_size = sc['bufsize']
            if onsim and sc.get('linked_dir'):
                os.makedirs('/simfs/mnt/vol1/data/deep/mapproxy')
                os.makedirs('/simfs/var')
                os.symlink('/simfs/mnt/vol1/data/deep/mapproxy', '/simfs/var/cache')
                cdir = '/simfs/var/cache/tiles'
                probes['cache_dir_behind_a_symlink'] = 1
            elif onsim:
                cdir = C.CACHE_DIR
            else:
                realdir = _real_dir()
                cdir = realdir
            if b['type'].startswith('geopackage'):
                from mapproxy.grid import tile_grid
                b2 = dict(b)
                b2['grid'] = tile_grid(3857, origin='nw')
            else:
                b2 = b
            runner = M.Runner(b, lambda: C.make_cache(b2, cdir), sc["pool"], sc["dimsets"])
            runner.clock = w.clock

            def hook(op, key, proc):
                if state['fired'] and fault.get('sticky') and runner.in_mutation and runner.call_seq == state.get('call') \
                        and op == 'write':
                    # the disk stays full (the device stays broken) until the failing call has returned: the flush that
                    # close() retries fails as well
                    faults['io_error_repeated'] = faults.get('io_error_repeated', 0) + 1
                    raise _injected(fault['errno'], key)
                if not runner.in_mutation or op not in ('write', 'rename', 'open', 'mkdir', 'unlink', 'link',
                                                        'symlink', 'ftruncate'):
                    return None
                i = state['n']
                state['n'] += 1
                if fire_at is not None and i == fire_at and not state['fired']:
                    state['fired'] = True
                    state['call'] = runner.call_seq
                    runner.fault_in_call = True
                    if fault['errno'] == 'short':
                        if op == 'write':
                            faults['short_write'] = faults.get('short_write', 0) + 1
                            return ('short', 7)
                        return None
                    faults['io_error_' + fault['errno']] = faults.get('io_error_' + fault['errno'], 0) + 1
                    raise _injected(fault['errno'], key)     # no local reference: avoids a frame<->exception cycle
                return None
            if onsim and fault:
                w.fs.fault_hook = hook
            try:
                for i, op in enumerate(sc['ops']):
                    w.clock.now += 0.25
                    try:
                        runner.apply(op, i)
                        if sc.get('huge') and i >= sc['huge']['at']:
                            import glob
                            for bf in sorted(glob.glob(cdir + '/L*/*.bundle')):
                                if os.path.getsize(bf) < (1 << 32):
                                    os.truncate(bf, (1 << 32) + sc['huge']['extra'])
                                    probes['bundle_over_4GiB'] = probes.get('bundle_over_4GiB', 0) + 1
                    except M.Mismatch as m:
                        return runner, state, {'sig': 'C05:%s:%s%s' % (m.kind, name, ':after-io-fault' if state['fired'] else ''),
                                               'msg': m.msg}
                    except OSError as ex:
                        if getattr(ex, 'injected', False):
                            # the fault surfaced outside a mutating call's own frame (e.g. reader): acceptable
                            continue
                        raise
            finally:
                c = runner.cache
                if hasattr(c, 'cleanup'):
                    try:
                        c.cleanup()
                    except Exception:
                        pass
        return runner, state, None

    try:
        if fault and onsim:
            runner, state, v = attempt(None)
            if v is None and state['n'] > 0:
                k = tape.choice(state['n'])
                runner, state, v = attempt(k)
        else:
            runner, state, v = attempt(None)
    except Exception as ex:
        if isinstance(ex, (NotImplementedError, KeyError, TypeError, ValueError, AttributeError, IndexError)) and \
                'mapproxy' in _tb_files(ex):
            import traceback
            v = {'sig': 'C05:raises:%s:%s' % (type(ex).__name__, name),
                 'msg': 'a cache operation raised %r\n%s' % (ex, ''.join(traceback.format_tb(ex.__traceback__)[-3:]))}
            runner = None
        else:
            raise
    finally:
        if realdir is not None:
            shutil.rmtree(realdir, ignore_errors=True)
            realdir = None
    nontrivial = runner is not None and (runner.overwrites + runner.removes_of_present) > 0 and runner.n_compared > 0
    if runner is not None:
        probes['overwrites'] = runner.overwrites
        probes['removes_of_present'] = runner.removes_of_present
        probes['comparisons'] = runner.n_compared
        probes['backend_' + name] = 1
    return {
        'violation': v,
        'digest': C.digest_of(sc['backend'], sc['ops'], sc['dimsets'], sc['fault'], faults, state['n'], runner.n_compared if runner else -1),
        'nontrivial': nontrivial,
        'steps': len(sc['ops']),
        'sim_time': 0.25 * len(sc['ops']),
        'faults': faults,
        'probes': probes,
        'sample': {'backend': name, 'ops': [M._opstr(o) for o in sc['ops'][:12]]},
    }


def _injected(name, key):
    code = getattr(errno, name)
    e = OSError(code, os.strerror(code), str(key))
    e.injected = True
    return e


def _tb_files(ex):
    import traceback
    return ' '.join(f.filename for f in traceback.extract_tb(ex.__traceback__))


if __name__ == '__main__':
    import checks.c05 as me
    from simkit import driver
    driver.main(me)
