"""C07 - file locks are exclusive and semaphores bounded under every interleaving.

System: the real FileLock / SemLock / LockFile (mapproxy.util.lock, util/ext/lockfile.py)
over SimFS flock semantics; 2-4 contenders, each its own simulated process, scheduled at
file-system-call granularity by the seeded chooser.
"""
import hashlib
import os
import sys

sys.path.insert(0, os.path.dirname(os.path.dirname(os.path.abspath(__file__))))

from simkit.tape import Tape  # noqa: E402
from simkit.world import World
from simkit.sched import SimCrash, SimAbort

PROP = 'C07'
LEVEL = 'exploration'
VERSION = 1
DESIGN_REF = 'DESIGN.md 6.3'
BUDGET = {'quick': 40, 'thorough': 600}
CHUNK = {'quick': 150, 'thorough': 300}
RULE = ('one case = one seeded scenario (2-4 contender processes x 1-3 lock/unlock cycles, release style, '
        'time-outs, hold styles, lock file permissions, lock-object re-use, optional process kill, optional failing unlink of the lock '
        'file, optional failing flock(), optionally as tile locks from TileLocker with a task that keeps cleaning the lock directory) under one seeded schedule at file-system-call granularity; '
        'non-trivial = at least one try-lock attempt failed because another contender held the lock (real contention) '
        'or a time-out was raised; distinct = distinct hash of the (task, seam-op, object) event sequence')
COMPONENTS = {
    'real': ['mapproxy.util.lock.FileLock', 'mapproxy.util.lock.SemLock', 'mapproxy.util.ext.lockfile.LockFile',
             'mapproxy.util.fs.ensure_directory', 'CPython io buffering'],
    'stub': ['kernel file system + flock (SimFS)', 'clock (SimClock; the wall clock may be set back, sleepers keep their remaining sleep)', 'thread scheduler choice (SimSched)', 'housekeeping task standing in for the other requests of a server that clean the lock directory (it calls the real cleanup_lockdir)',
             'os.getpid'],
}
ASSUMPTIONS = [
    'flock(2) semantics: lock owned by the open file description, released on last close or process death',
    'pre-emption only at seam calls (file-system call, sleep, harness yield)',
    'process death, not power loss',
]

LOCKDIR = '/simfs/locks'
PATH = LOCKDIR + '/tile.lck'


def gen(t, tier):
    kind = t.weighted([('filelock', 3), ('semlock', 1)])
    ncont = t.randint(2, 4) if kind == 'filelock' else t.randint(2, 5)
    sc = {
        'kind': kind,
        'remove': bool(t.choice(2)) if kind == 'filelock' else False,
        'n': t.randint(1, 3) if kind == 'semlock' else 1,
        'policy': t.pick([['sticky', 0.1], ['sticky', 0.3], ['sticky', 0.6], ['random']]),
        'eager_time': bool(t.chance(0.25)),
        'reuse': bool(t.chance(0.3)),
        'perm': t.pick([None, None, '666']),
        'crash': bool(t.chance(0.2)),
        'contenders': [],
    }
    for i in range(ncont):
        cyc = t.randint(1, 3)
        c = {'timeout': t.pick([60, 60, 1, 0.05, 0.004, 0]), 'step': t.pick([0.01, 0.002]), 'holds': []}
        for _ in range(cyc):
            if t.chance(0.35):
                c['holds'].append(['s', t.pick([0.0005, 0.02, 0.3])])
            else:
                c['holds'].append(['y', t.randint(0, 4)])
        sc['contenders'].append(c)
    if sc['kind'] == 'filelock' and sc['remove'] and t.chance(0.25):
        # the unlink of the lock file fails once (sticky lock directory owned by another user, I/O error): unlock() then
        # falls back to closing the descriptor - the lock is free all the same and must stay exclusive afterwards
        sc['unlink_fault'] = {'at': t.choice(6), 'errno': t.pick(['EPERM', 'EIO', 'EACCES'])}
        sc['reuse'] = bool(t.chance(0.7))
    if sc['kind'] == 'filelock' and sc['remove'] and not sc.get('unlink_fault') and t.chance(0.3):
        # the lock is a tile lock handed out by TileLocker (every lock() call of which may clean the lock directory), and other
        # requests of the server keep cleaning the lock directory (cleanup_lockdir) while the contenders lock and unlock
        sc['tilelocker'] = {'cleanups': t.randint(1, 6), 'gap': t.pick([0, 0.001, 0.02]),
                            # the wall clock is set back by ten minutes while locks are held: their files are "from the future"
                            'clock_back': t.pick([None, None, 600.0])}
        sc['perm'] = None
    if sc['kind'] == 'semlock' and t.chance(0.3):
        # the semaphore's slot files live in the lock directory that TileLocker keeps cleaning (the default layout); a slot may
        # be held for longer than the age at which lock files count as left-overs (a slow render, a dripping upstream)
        sc['tilelocker'] = {'cleanups': t.randint(1, 6), 'gap': t.pick([0.02, 5.0, 40.0])}
        sc['perm'] = None
        sc['eager_time'] = False
        for c in sc['contenders']:
            c['step'] = 0.5
            c['delay'] = t.pick([0, 0, 85.0])       # a late-comer: until it arrives nobody polls (and thereby touches) the slot files
            c['holds'] = [['s', t.pick([100.0, 100.0, 0.3])] if t.chance(0.5) else h for h in c['holds']]
    if t.chance(0.2):
        # one flock() call of a contender fails for a reason other than "somebody else holds it" (no lock records left in the
        # kernel, an interrupted call, an I/O error of a network file system): that attempt did not take the lock
        sc['flock_fault'] = {'at': t.choice(8), 'errno': t.pick(['ENOLCK', 'ENOLCK', 'EINTR', 'EIO'])}
    return sc


def shrink(sc):
    import copy
    cs = sc['contenders']
    if len(cs) > 2:
        for i in range(len(cs)):
            c = copy.deepcopy(sc)
            del c['contenders'][i]
            yield c
    for i, cont in enumerate(cs):
        if len(cont['holds']) > 1:
            for j in range(len(cont['holds'])):
                c = copy.deepcopy(sc)
                del c['contenders'][i]['holds'][j]
                yield c
    for i, cont in enumerate(cs):
        for j, h in enumerate(cont['holds']):
            if h != ['y', 0]:
                c = copy.deepcopy(sc)
                c['contenders'][i]['holds'][j] = ['y', 0] if h[0] == 'y' or h == ['y', 1] else ['y', 1]
                yield c
    if sc.get('unlink_fault'):
        c = copy.deepcopy(sc)
        del c['unlink_fault']
        yield c
    if sc.get('flock_fault'):
        c = copy.deepcopy(sc)
        del c['flock_fault']
        yield c
    if sc.get('tilelocker') and sc['tilelocker']['cleanups'] > 1:
        c = copy.deepcopy(sc)
        c['tilelocker']['cleanups'] -= 1
        yield c
    for key, simple in (('crash', False), ('eager_time', False), ('reuse', False), ('perm', None)):
        if sc[key] != simple:
            c = copy.deepcopy(sc)
            c[key] = simple
            yield c
    if sc['policy'] != ['sticky', 0.3]:
        c = copy.deepcopy(sc)
        c['policy'] = ['sticky', 0.3]
        yield c
    for i, cont in enumerate(cs):
        if cont['timeout'] != 60:
            c = copy.deepcopy(sc)
            c['contenders'][i]['timeout'] = 60
            yield c


def run(sc, tape):
    from mapproxy.util.lock import FileLock, SemLock, LockTimeout
    w = World(tape, policy=tuple(sc['policy']), step_cap=100000, eager_time=sc['eager_time'])
    sched = w.sched
    fs = w.fs
    n_slots = sc['n']
    style = 'sem%d' % n_slots if sc['kind'] == 'semlock' else ('remove' if sc['remove'] else 'keep')
    path = PATH
    if sc.get('tilelocker') and sc['kind'] == 'semlock':
        style = 'sem%d-cleaned' % n_slots
    elif sc.get('tilelocker'):
        from mapproxy.cache.base import TileLocker
        from mapproxy.cache.tile import Tile
        style = 'tilelocker'
        path = TileLocker(LOCKDIR, 60, 'cid').lock_filename(Tile((1, 1, 1)))
    events = []          # (seq, tid, kind, extra, now)
    inside = {}          # tid -> enter seq
    viol = []
    faults = {}
    crashed = []

    set_back = [0.0]
    cleaning = {}            # task id -> total set-back when its cleanup_lockdir() pass began
    straddled = [False]      # a cleanup pass that began before a set-back of the clock unlinked a lock file after it

    def _mutex_kind():
        # one specific history has its own signature (known_findings.json): a cleanup pass computed its expiry time, the wall
        # clock was then set back, a lock taken after that looked ten minutes old to the pass and was unlinked
        return 'cleanup-pass-straddles-clock-step' if straddled[0] else 'mutex'

    if (sc.get('tilelocker') or {}).get('clock_back'):
        import mapproxy.util.lock as _mlock
        import mapproxy.cache.base as _mbase
        _orig_cleanup = _mlock.cleanup_lockdir

        def _tracked_cleanup(*a, **kw):
            me = sched._me()
            key_ = me.tid if me is not None else -1
            cleaning[key_] = set_back[0]
            try:
                return _orig_cleanup(*a, **kw)
            finally:
                cleaning.pop(key_, None)
        w.extra_patches.append((_mlock, 'cleanup_lockdir', _tracked_cleanup))
        w.extra_patches.append((_mbase, 'cleanup_lockdir', _tracked_cleanup))

    def ev(tid, kind, extra=None):
        if kind != 'killed':
            sched.check_alive()
        # (time as a monotonic clock would show it: set-backs of the wall clock are added back)
        events.append((len(sched.log), tid, kind, extra, w.clock.now + set_back[0]))

    def make_lock(c):
        if sc['kind'] == 'semlock':
            return SemLock(path, n_slots, timeout=c['timeout'], step=c['step'], file_permissions=sc['perm'])
        if sc.get('tilelocker') and sc['kind'] != 'semlock':
            return TileLocker(LOCKDIR, c['timeout'], 'cid').lock(Tile((1, 1, 1)))
        return FileLock(path, timeout=c['timeout'], step=c['step'], remove_on_unlock=sc['remove'],
                        file_permissions=sc['perm'])

    def contender(i, c):
        def fn():
            tid = i
            lock = None
            if c.get('delay'):
                import time
                time.sleep(c['delay'])
            for h in c['holds']:
                if lock is None or not sc['reuse']:
                    lock = make_lock(c)
                ev(tid, 'want')
                try:
                    lock.lock()
                except LockTimeout:
                    ev(tid, 'timeout')
                    continue
                except Exception as ex:
                    viol.append(('lock-raised:' + type(ex).__name__,
                                 'lock() of contender c%d raised %r instead of acquiring or timing out' % (tid, ex)))
                    sched.abort('violation')
                sched.check_alive()
                inside[tid] = len(sched.log)
                ev(tid, 'enter')
                if len(inside) > n_slots:
                    viol.append((_mutex_kind(), 'contenders %s inside together (limit %d)' % (sorted(inside), n_slots)))
                    sched.abort('violation')
                if h[0] == 'y':
                    for _ in range(h[1]):
                        sched.yield_point('cs', tid)
                else:
                    import time
                    time.sleep(h[1])
                if len(inside) > n_slots:
                    viol.append((_mutex_kind(), 'contenders %s inside together (limit %d)' % (sorted(inside), n_slots)))
                    sched.abort('violation')
                ev(tid, 'exit')
                del inside[tid]
                lock.unlock()
                ev(tid, 'unlocked')
            lock = None
        return fn

    crash_budget = [1 if sc['crash'] else 0]
    unlink_count = [0]

    def fault_hook(op, key, proc):
        if op == 'unlink' and cleaning:
            me_ = sched._me()
            if me_ is not None and me_.tid in cleaning and cleaning[me_.tid] != set_back[0]:
                straddled[0] = True
        uf = sc.get('unlink_fault')
        if uf and op == 'unlink' and str(key).endswith('.lck'):
            n = unlink_count[0]
            unlink_count[0] += 1
            if n == uf['at']:
                import errno
                faults['unlink_error_' + uf['errno']] = faults.get('unlink_error_' + uf['errno'], 0) + 1
                code = getattr(errno, uf['errno'])
                raise OSError(code, os.strerror(code), str(key))
        ff = sc.get('flock_fault')
        if ff and op == 'flock' and proc is not None and proc.name not in ('pf', 'hk') and str(key).startswith(path):
            n = flock_count[0]
            flock_count[0] += 1
            if n == ff['at']:
                import errno
                faults['flock_error_' + ff['errno']] = faults.get('flock_error_' + ff['errno'], 0) + 1
                flock_failed.append((len(sched.log), int(proc.name[1:])))
                code = getattr(errno, ff['errno'])
                raise OSError(code, os.strerror(code))
        return None
    flock_count = [0]
    flock_failed = []
    if sc.get('unlink_fault') or sc.get('flock_fault') or (sc.get('tilelocker') or {}).get('clock_back'):
        fs.fault_hook = fault_hook

    def on_yield(task, kind, key):
        if crash_budget[0] and task.tid < len(sc['contenders']) and kind.startswith('fs-') or kind == 'cs':
            if crash_budget[0] and task.tid < len(sc['contenders']) and tape.chance(0.03):
                crash_budget[0] -= 1
                tid = task.tid
                faults['process_kill'] = faults.get('process_kill', 0) + 1
                if tid in inside:
                    del inside[tid]
                    faults['process_kill_while_holding'] = faults.get('process_kill_while_holding', 0) + 1
                ev(tid, 'killed')
                crashed.append(tid)
                sched.crash_proc(task.proc, fs)

    final = {}

    def finisher():
        tasks = sched.tasks[:len(sc['contenders'])]
        sched.wait_until(lambda: all(t.state == 3 for t in tasks), 'wait-all')
        # a released lock can always be taken again: every slot, first attempt
        got = []
        try:
            for k in range(n_slots):
                if sc['kind'] == 'semlock':
                    l = SemLock(path, n_slots, timeout=0, step=0.001, file_permissions=sc['perm'])
                else:
                    l = FileLock(path, timeout=0, step=0.001, remove_on_unlock=sc['remove'],
                                 file_permissions=sc['perm'])
                l.lock()
                got.append(l)
            final['ok'] = True
        except LockTimeout:
            final['ok'] = False
        for l in got:
            l.unlock()

    with w:
        sched.on_yield = on_yield
        for i, c in enumerate(sc['contenders']):
            sched.spawn(contender(i, c), 'c%d' % i, w.new_proc('p%d' % i))
        sched.spawn(finisher, 'fin', w.new_proc('pf'))
        if sc.get('tilelocker'):
            def housekeeper():
                import time
                from mapproxy.util.lock import cleanup_lockdir
                if sc['tilelocker'].get('clock_back'):
                    time.sleep(0.003)
                    sched.step_wall_clock(-sc['tilelocker']['clock_back'])
                    set_back[0] += sc['tilelocker']['clock_back']
                    faults['clock_set_back'] = 1
                for _ in range(sc['tilelocker']['cleanups']):
                    # what the 50th TileLocker.lock() call of any request does (lock time-out 60 s)
                    cleanup_lockdir(LOCKDIR, max_lock_time=70, force=True)
                    faults['lockdir_cleanups'] = faults.get('lockdir_cleanups', 0) + 1
                    if sc['tilelocker']['gap']:
                        time.sleep(sc['tilelocker']['gap'])
                    else:
                        sched.yield_point('hk', 0)
            sched.spawn(housekeeper, 'hk', w.new_proc('hk'))
        outcome = w.run_tasks()
        for t in sched.tasks:
            if t.exc is not None:
                raise t.exc
        if sched.unexpected:
            raise RuntimeError('unexpected thread death: %r' % (sched.unexpected,))

    log = sched.log
    violation = None
    probes = dict(fs.probes)
    if viol:
        violation = {'sig': 'C07:%s:%s' % (viol[0][0], style), 'msg': viol[0][1]}
    elif outcome == 'deadlock':
        violation = {'sig': 'C07:hang:%s' % style,
                     'msg': 'lock/unlock cycles did not terminate: %s %r' % (outcome, sched.stuck_info)}
    elif final.get('ok') is False:
        violation = {'sig': 'C07:relock-failed:%s' % style,
                     'msg': 'after all contenders were done a fresh lock() could not take the lock at once'}
    else:
        msg = check_timeouts(sc, events, log, flock_failed, path)
        if msg:
            # (the same listed history can also show as a time-out: the straddling pass unlinks the file a contender has just
            # locked, its inode check fails and a time-out of 0 expires)
            violation = {'sig': 'C07:%s:%s' % ('cleanup-pass-straddles-clock-step' if straddled[0] else 'spurious-timeout', style),
                         'msg': msg}

    contended = sum(1 for e in log if e[1] == 'slept' and e[0] < len(sc['contenders']))
    ntimeouts = sum(1 for e in events if e[2] == 'timeout')
    if ntimeouts:
        probes['timeouts'] = ntimeouts
    if contended:
        probes['waits'] = contended
    h = hashlib.sha1(repr(log).encode() + repr([(e[1], e[2]) for e in events]).encode()).hexdigest()[:16]
    return {
        'violation': violation,
        'digest': h,
        'nontrivial': bool(contended or ntimeouts),
        'steps': sched.steps,
        'sim_time': w.clock.now - 1.7e9,
        'faults': faults,
        'probes': probes,
        'sample': {'events': [(e[0], 'c%d' % e[1], e[2]) for e in events][:60], 'outcome': outcome,
                   'log_tail': [list(map(str, x)) for x in log[-25:]]},
    }


def check_timeouts(sc, events, log, flock_failed=(), path=PATH):
    """a LockTimeout is justified only if >= timeout elapsed and during each try-lock attempt of the
    waiter some other contender held (or was acquiring / releasing) the lock at some instant (or the waiter's own flock()
    call failed with an injected error during that attempt)"""
    nc = len(sc['contenders'])
    # unavailable intervals of every contender, in log-sequence units
    unavail = []     # (tid, start_seq, end_seq)
    pending = {}     # tid -> seq of a lock() call that has not returned yet
    for seq, tid, kind, extra, now in events:
        if kind == 'want':
            pending[tid] = seq
        elif kind == 'timeout':
            pending.pop(tid, None)
        elif kind == 'enter':
            # the holder became unavailable somewhere inside its lock() call: use the start of the call
            unavail.append([tid, pending.pop(tid), None])
        elif kind == 'unlocked':
            for u in unavail:
                if u[0] == tid and u[2] is None:
                    u[2] = seq
        elif kind == 'killed':
            closed = False
            for u in unavail:
                if u[0] == tid and u[2] is None:
                    u[2] = seq
                    closed = True
            if not closed and tid in pending:
                # killed inside lock(): it may have held the flock from any point of that call on
                unavail.append([tid, pending.pop(tid), seq])
    end = len(log) + 1
    for u in unavail:
        if u[2] is None:
            u[2] = end
    last_want = {}
    for seq, tid, kind, extra, now in events:
        if kind == 'want':
            last_want[tid] = (seq, now)
        if kind != 'timeout':
            continue
        s_seq, s_now = last_want[tid]
        timeout = sc['contenders'][tid]['timeout']
        if now - s_now < timeout - 1e-9:
            return 'contender c%d got LockTimeout after %.6fs, before its timeout of %ss' % (tid, now - s_now, timeout)
        opens = [k for k in range(s_seq, min(seq, len(log))) if log[k][0] == tid and log[k][1] == 'fs-open'
                 and str(log[k][2]).startswith(path)]
        if not opens:
            return 'contender c%d got LockTimeout without a single attempt' % tid
        bounds = opens + [seq]
        if sc['kind'] == 'semlock':
            # one try = a round over the n slots: group consecutive opens without a sleep between them
            groups = []
            cur = [opens[0]]
            for a, b in zip(opens, opens[1:]):
                if any(log[k][0] == tid and log[k][1] == 'slept' for k in range(a, b)):
                    groups.append(cur)
                    cur = [b]
                else:
                    cur.append(b)
            groups.append(cur)
            bounds = [g[0] for g in groups] + [seq]
        for a, b in zip(bounds, bounds[1:]):
            ok = any(ftid == tid and a <= fseq <= b for fseq, ftid in flock_failed)
            for utid, us, ue in unavail:
                if utid != tid and us <= b and ue >= a:
                    ok = True
                    break
            if not ok:
                return ('contender c%d timed out although during its attempt (events %d..%d) no other contender '
                        'held or was taking the lock' % (tid, a, b))
        # "continuously unavailable": the waiter must not give up on stale information. If the lock became free and
        # stayed free, and the waiter afterwards slept (simulated time passed) and raised the time-out without looking
        # at the lock again, the lock was available for a stretch of time before the time-out.
        others = [(us, ue) for utid, us, ue in unavail if utid != tid and us <= seq and ue >= s_seq]
        last_busy = max([min(ue, seq) for us, ue in others] or [s_seq])
        if last_busy < seq:
            woke = [k for k in range(last_busy, min(seq, len(log))) if log[k][0] == tid and log[k][1] == 'slept']
            if woke and not any(k > woke[-1] for k in opens):
                return ('contender c%d got LockTimeout although the lock had been released (event %d) before its last sleep '
                        'ended (event %d) and nobody took it again: it never looked at the lock after waking up' % (
                            tid, last_busy, woke[-1]))
    return None


if __name__ == '__main__':
    import checks.c07 as me
    from simkit import driver
    driver.main(me)
