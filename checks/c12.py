"""C12 - cleanup removes exactly the expired tiles it was asked to remove.

System: the real cleanup() with all three strategies (directory walk, cache-level removal,
tile-walker with the real TileCleanupWorker threads), tasks built by the real
CleanupConfiguration from a seeding config dict against a ProxyConfiguration built by the real
loader; file (all layouts) and compact caches on SimFS, sqlite / mbtiles / geopackage on tmpfs.
History: tiles stored at different simulated times, foreign objects next to the cache, then one
cleanup task (levels, remove_all / remove_before / default, full extent or coverage).
"""
import contextlib
import copy
import io
import os
import shutil
import sys
import time as _time
import types

sys.path.insert(0, os.path.dirname(os.path.dirname(os.path.abspath(__file__))))

from simkit.world import World, _REAL  # noqa: E402
from simkit.sched import SimQueue, SimQueueModule  # noqa: E402
from checks import common as C  # noqa: E402
from checks import upstream as U  # noqa: E402
from checks import fullstack as F  # noqa: E402

PROP = 'C12'
LEVEL = 'exploration'
VERSION = 1
BUDGET = {'quick': 50, 'thorough': 600}
CHUNK = {'quick': 10, 'thorough': 20}
RULE = ('one case = one seeded cache content (6-30 tiles on levels 0-3 stored at seeded simulated times, some sharing a '
        'second, plus foreign objects: a second cache, lock files, stray files) (or, deep variant, tiles around the bundle borders of levels 8/9 of a ten-level pyramid) x one cleanup task (level list / range / open or '
        'zero-ended range / levels beyond the grid, remove_all / remove_before as absolute time, relative age or file mtime / '
        'default, full extent or coverage: bbox in the grid SRS or EPSG:4326, edge-hugging bbox, polygon, two boxes) on one '
        'backend+layout in a seeded local time zone (fixed offsets, one with daylight-saving time), tiles optionally stored again later, the cleanup clock optionally behind the newest tiles, readdir order permuted, optionally after another cleanup task of the same run, optionally with every directory older than its tiles (restored backup), optionally with removals that take seconds (stalled backend); non-trivial = the task had to remove at least one tile and keep at '
        'least one tile of the same cache; distinct = distinct (backend, contents, task) hash')
COMPONENTS = {
    'real': ['mapproxy.seed.cleanup (cleanup, simple_cleanup, cache_cleanup, tilewalker_cleanup)', 'mapproxy.util.fs.cleanup_directory',
             'mapproxy.seed.seeder.TileWalker/TileWorkerPool/TileCleanupWorker (thread flavour)', 'mapproxy.seed.config.CleanupConfiguration/SeedingConfiguration',
             'mapproxy.config.loader.ProxyConfiguration', 'mapproxy.cache.file / path (all layouts)', 'mapproxy.cache.compact',
             'mapproxy.cache.mbtiles (MBTilesCache, MBTilesLevelCache)', 'mapproxy.cache.geopackage', 'os.walk / shutil.rmtree replacement over SimFS'],
    'stub': ['file system for file/compact caches (SimFS, readdir order permuted)', 'clock', 'queue + scheduler for the cleanup worker threads', 'time stamps of SQLite database files (set to the simulated time of their last write)', 'other processes on SQLite caches: raw sqlite3 connections kept open (WAL mode) or holding the write lock during the cleanup'],
    'outside_the_seams': ['sqlite file I/O on tmpfs'],
}
ASSUMPTIONS = [
    'mapproxy compares whole seconds in some strategies and floats in others: tiles whose floor(mtime) equals floor(threshold) are unspecified',
    'a meta tile that only touches the coverage (intersection area ~ 0) is unspecified',
    'stray files are placed outside the level directories (what lies inside a level directory counts as that cache\'s tile data)',
]
BACKENDS = ([({'type': 'file', 'directory_layout': l}, 2) for l in ('tc', 'mp', 'tms', 'reverse_tms', 'quadkey', 'arcgis')] +
            [({'type': 'file', 'directory_layout': 'tc', 'link': 'symlink'}, 2), ({'type': 'file', 'directory_layout': 'tms', 'link': 'symlink'}, 1)] +
            [({'type': 'compact', 'version': 1}, 2), ({'type': 'compact', 'version': 2}, 2), ({'type': 'sqlite'}, 3),
             ({'type': 'mbtiles'}, 1), ({'type': 'geopackage'}, 1), ({'type': 'geopackage', 'levels': True}, 1)])
_seq = [0]
H = U.H


def gen(t, tier):
    b = copy.deepcopy(t.weighted(BACKENDS))
    has_ts = b['type'] in ('file', 'sqlite')
    sc = {'backend': b, 'meta_size': t.pick([[1, 1], [1, 1], [2, 2], [3, 2]]), 'tiles': [], 'salt': t.pick([None, 'a', 'b', 'c'])}
    gk = t.weighted([('global2', 4), ('sqrt2', 2), ('custom', 2)])
    if b['type'] == 'geopackage' or b.get('directory_layout') == 'quadkey':
        gk = 'global2'      # quadkey file names only address tiles with x, y < 2**z
    sc['gk'] = gk
    if gk == 'global2':
        sc['grid'] = {'srs': 'EPSG:3857', 'tile_size': [U.TS, U.TS], 'num_levels': 4, 'origin': 'll'}
    elif gk == 'sqrt2':
        sc['grid'] = {'srs': 'EPSG:3857', 'tile_size': [U.TS, U.TS], 'res_factor': 'sqrt2', 'num_levels': 6, 'origin': t.pick(['ll', 'ul'])}
    else:
        sc['grid'] = {'srs': 'EPSG:3857', 'tile_size': [U.TS, U.TS], 'bbox': [1000000, 6000000, 1100000, 6070000],
                      'res': t.pick([[4000, 1500, 700, 300], [5000, 2000, 900], [3000, 1300, 500, 200]]), 'origin': t.pick(['ll', 'ul'])}
    n = t.randint(6, 20 if tier == 'quick' else 30)
    seen = []
    # deep pyramid: ten levels, tiles next to the bundle / directory-group borders 127|128 and 255|256 of levels 8 and 9,
    # cleaned up through a small coverage around the border (the tile walk then meets meta tiles that span two bundles)
    # (layouts without level directories clean a whole extent by walking every tile of every level: not on a deep pyramid)
    deep = gk == 'global2' and b.get('directory_layout') not in ('quadkey', 'reverse_tms') and t.chance(0.15)
    if deep:
        sc['grid']['num_levels'] = 12       # two-digit level numbers: names of level 1 and of levels 10, 11 share a prefix
        sc['meta_size'] = t.pick([[3, 3], [5, 5], [2, 2], [3, 2], [1, 1]])
    for _ in range(n):
        z = t.pick([0, 1, 2, 2, 3, 3, 4, 5])
        # fractional position inside the level, mapped to a tile index at run time (the grid size is the loader's business)
        c = [t.choice(1000), t.choice(1000), z]
        if deep:
            z = t.pick([8, 8, 8, 9, 7, 1, 10, 11, 0])
            near = {8: [493, 497, 500, 504, 489, 508], 9: [247, 249, 250, 252, 499, 500], 7: [497, 500, 503],
                    10: [124, 125, 498, 500], 11: [62, 499, 500, 501], 1: [0, 600], 0: [0]}[z]
            c = [t.pick(near), t.pick(near), z]
        if c in seen:
            continue
        seen.append(c)
        sc['tiles'].append([c, t.pick([0.0, 0.2, 0.7, 1.0, 1.0, 5, 3600, 86400])])
        if b.get('link') and t.chance(0.5):
            # a single-colour tile: stored as a link to a file shared by all tiles of that colour
            sc['tiles'][-1].append(t.pick([[255, 0, 0], [0, 0, 255]]))
    nlev = sc['grid'].get('num_levels') or len(sc['grid']['res'])
    levels = t.weighted([('all', 1), ('list', 3), ('range', 2), ('open', 2)])
    if deep:
        levels = 'deep'
        sc['levels'] = t.pick([[8], [8, 9], [9], {'from': 8}, {'from': 7, 'to': 8}, [1], [1, 8], {'to': 1}, [0, 10], [11]])
    if levels == 'deep':
        pass
    elif levels == 'list':
        sc['levels'] = sorted(set(t.choice(nlev) for _ in range(t.randint(1, 3))))
        if t.chance(0.2):
            sc['levels'].append(99)         # not a level of this grid: to be ignored
    elif levels == 'range':
        a = t.choice(nlev)
        sc['levels'] = {'from': a, 'to': t.randint(a, nlev - 1)}
    elif levels == 'open':
        # ranges with one end left out, ending at level 0, or reaching beyond the last level
        sc['levels'] = t.pick([{'to': 0}, {'from': 0, 'to': 0}, {'to': t.choice(nlev)}, {'from': t.choice(nlev)},
                               {'from': t.choice(nlev), 'to': 99}])
    else:
        sc['levels'] = None
    if has_ts:
        mode = t.weighted([('remove_all', 2), ('time', 5), ('rel', 2), ('mtime', 1), ('default', 1)])
    else:
        mode = t.weighted([('remove_all', 3), ('default', 2)])
    sc['mode'] = mode
    # the cache itself may have a refresh rule for serving (refresh_before); the cleanup task's own remove_before decides
    sc['cache_refresh'] = t.pick([None, None, None, {'seconds': 1}, {'hours': 5}, {'weeks': 100}]) if has_ts else None
    sc['k'] = t.choice(max(1, len(sc['tiles'])))     # the threshold is placed around the store time of tile k
    sc['delta'] = t.pick([-1, 0, 0, 1, 2, 100])
    # time between the last store and the cleanup; negative: the cleanup runs on a machine whose clock is behind the one that
    # wrote the tiles (or the clock was set back) - the newest tiles are "from the future"
    sc['after'] = t.pick([0.0, 0.5, 3.0, 7200.0, 7200.0, -2.0, -7200.0])
    if t.chance(0.55):
        # bbox coverage as fractions of the grid extent (aligned, slightly off, and clearly unaligned corners)
        fx, fy = t.choice(8) / 8.0 + t.pick([0, 0.00005, -0.00005, 3 / 64.0, 1 / 32.0]), \
            t.choice(8) / 8.0 + t.pick([0, 0.00005, -0.00005, 3 / 64.0, 1 / 32.0])
        sc['coverage'] = [fx, fy, fx + t.randint(1, 6) / 8.0 + t.pick([0, 1 / 32.0]), fy + t.randint(1, 6) / 8.0]
    else:
        sc['coverage'] = None
    sc['cov_srs'] = t.pick(['3857', '4326'])
    if sc['coverage'] and t.chance(0.4):
        # upper/right edges just beyond a tile border of a coarse level (resolved against the grid at run time)
        sc['coverage'] = ['edge', t.choice(1000), t.choice(1000), t.choice(1000), t.choice(25)]
    elif sc['coverage'] and t.chance(0.4):
        # not a rectangle: a polygon (triangle / L-shape that reaches all four borders of the grid) or two separate
        # boxes in opposite corners - their bounding box spans the grid, their area does not
        sc['coverage'] = ['shape', t.pick(['triangle', 'lshape', 'corners', 'corners2', 'corners', 'lshape', 'empty2']), t.choice(1000)]
    if deep:
        # always with a coverage (a full-extent cleanup of a 10-level pyramid takes the per-level fast path anyway)
        lo = t.pick([0.47, 0.48, 0.485, 0.49, 0.495])
        sc['coverage'] = [lo, t.pick([0.47, 0.48, 0.49]), lo + t.pick([0.01, 0.02, 0.03]), 0.5 + t.pick([0.004, 0.01, 0.02])]
        if t.chance(0.3):
            sc['coverage'] = [0.24, 0.24, 0.26, 0.26] if t.chance(0.5) else [0.49, 0.49, 0.51, 0.51]
        if t.chance(0.35):
            sc['coverage'] = None       # whole extent: the per-level fast paths of every backend on a deep pyramid
    # some tiles are stored again later (a refresh): with the same content - for a linked single-colour tile the link
    # already points where it should - or with new content; the tile is then as new as its latest store
    sc['restore'] = [[t.choice(max(1, len(sc['tiles']))), t.pick([1.0, 5, 3600, 86400, 14 * 86400]), bool(t.chance(0.6))]
                     for _ in range(t.pick([0, 0, 1, 2, 3]))] if has_ts else []
    sc['old_dirs'] = b['type'] == 'file' and bool(t.chance(0.2))
    # SQLite caches in write-ahead-log mode, with the server process keeping its connections open while the tiles are stored:
    # commits go to the -wal file, the main database file (and its time stamp) is not touched until a checkpoint
    sc['wal'] = b['type'] in ('sqlite', 'mbtiles') and bool(t.chance(0.4))
    # another process holds the write lock of one of the cache's database files for longer than the cleanup is willing to
    # wait: the cleanup may fail loudly, it must not report success with the expired tiles still there
    sc['db_locked'] = b['type'] in ('sqlite', 'mbtiles') and not sc['coverage'] and bool(t.chance(0.15))
    # the cache has a coverage of its own (it was narrowed to a region after the tiles were stored): what the cleanup task
    # selects is still what has to go
    sc['cache_coverage'] = [t.choice(5) / 8.0, t.choice(5) / 8.0, t.randint(4, 8) / 8.0, t.randint(4, 8) / 8.0] \
        if t.chance(0.25) else None
    sc['vanish'] = [t.choice(1000), t.choice(60)] if (b['type'] == 'file' and not b.get('link') and t.chance(0.25)) else None
    sc['slow_remove'] = t.pick([None] * 9 + [3.0, 7.0])
    if deep:
        sc['slow_remove'] = None        # thousands of multi-second removals would only burn steps
    if has_ts and t.chance(0.3):
        sc['pre_task'] = {'levels': sorted(set(t.choice(nlev) for _ in range(2)))}
    sc['tz'] = t.pick(C.TIMEZONES)
    sc['mtime_res'] = t.pick([None, None, None, 1.0, 2.0])      # granularity of the file system's time stamps
    # the same level selection spelled as `resolutions:` (the exact resolutions of the selected levels of this grid)
    sc['levels_as_res'] = t.chance(0.2)
    # ... and the cleanup entry may name a second grid of the cache first (another SRS, another resolution -> level mapping, no
    # tiles stored for it): the level selection is worked out per grid
    sc['second_grid'] = t.chance(0.5) if sc['levels_as_res'] else False
    return sc


def shrink(sc):
    if sc.get('tz', 'UTC') != 'UTC':
        c = copy.deepcopy(sc)
        c['tz'] = 'UTC'
        yield c
    n = len(sc['tiles'])
    size = n // 2
    while size >= 1:
        for i in range(0, n, size):
            c = copy.deepcopy(sc)
            del c['tiles'][i:i + size]
            c['restore'] = [[r[0] - size if r[0] >= i + size else r[0], r[1], r[2]] for r in sc.get('restore') or []
                            if not i <= r[0] < i + size and r[0] < n]
            if c['tiles']:
                c['k'] = min(c['k'], len(c['tiles']) - 1)
                yield c
        size //= 2
    for key, simple in (('coverage', None), ('cov_srs', '3857'), ('meta_size', [1, 1]), ('salt', None), ('after', 0.0),
                        ('cache_refresh', None), ('cache_coverage', None), ('wal', False), ('db_locked', False), ('pre_task', None), ('old_dirs', False), ('slow_remove', None), ('vanish', None)):
        if sc.get(key, simple) != simple:
            c = copy.deepcopy(sc)
            c[key] = simple
            yield c
    for i in range(len(sc.get('restore') or [])):
        c = copy.deepcopy(sc)
        del c['restore'][i]
        yield c
    for i, item in enumerate(sc['tiles']):
        dt = item[1]
        if dt not in (0.0, 1.0):
            c = copy.deepcopy(sc)
            c['tiles'][i][1] = 1.0
            yield c


def _iso(ts):
    return C.iso_local(ts)


def _tile_bbox(c, meta, grid):
    """bbox of the meta tile that contains tile c (independent arithmetic over the grid definition)"""
    x, y, z = c
    mx, my = meta
    nx, ny = grid.grid_sizes[z]
    res = grid.resolutions[z]
    tw, th = grid.tile_size[0] * res, grid.tile_size[1] * res
    gx0, gy0, gx1, gy1 = grid.bbox
    mx, my = min(mx, nx), min(my, ny)
    x0, y0 = (x // mx) * mx, (y // my) * my
    x1, y1 = min(x0 + mx, nx), min(y0 + my, ny)
    if grid.origin in ('ul', 'nw'):
        return (gx0 + x0 * tw, gy1 - y1 * th, gx0 + x1 * tw, gy1 - y0 * th)
    return (gx0 + x0 * tw, gy0 + y0 * th, gx0 + x1 * tw, gy0 + y1 * th)


def _overlap_area(a, b):
    w = min(a[2], b[2]) - max(a[0], b[0])
    h = min(a[3], b[3]) - max(a[1], b[1])
    return w, h


def run(sc, tape):
    with C.local_timezone(sc.get('tz')):
        return _run(sc, tape)


def _run(sc, tape):
    if sc['grid'].get('num_levels', 0) > 6 and sc['coverage'] is None and sc['backend'].get('directory_layout') in ('quadkey', 'reverse_tms'):
        # (only reachable through shrinking) a whole-extent tile walk over a deep pyramid: millions of tiles, not a case
        return {'violation': None, 'digest': 'skipped', 'nontrivial': False, 'steps': 0, 'sim_time': 0.0, 'faults': {}, 'probes': {}}
    seeder = C.import_seeder_threaded()
    import datetime as real_dt
    import mapproxy.util.times as times
    from mapproxy.seed.config import SeedingConfiguration
    from mapproxy.seed.cleanup import cleanup
    from mapproxy.cache.tile import Tile

    b = sc['backend']
    name = b['type'] + ('-' + b['directory_layout'] if 'directory_layout' in b else '') + \
        ('-v%d' % b['version'] if 'version' in b else '') + ('-levels' if b.get('levels') else '') + ('-' + b['link'] if b.get('link') else '') + \
        ('-meta' if sc['meta_size'] != [1, 1] else '') + ('-' + sc['gk'] if sc['gk'] != 'global2' else '')
    w = World(tape, policy=('sticky', 0.3), step_cap=600000)
    sched = w.sched
    clock = w.clock
    w.fs.readdir_salt = sc['salt']
    # the geopackage backend leaves its connections to the cyclic garbage collector (3 descriptors per reconnect): the
    # collector is switched off inside a World, so it is run every 1000 scheduler steps instead
    w.sched.gc_every = 1000
    w.fs.mtime_res = sc.get('mtime_res')

    w.extra_patches.append((times, 'datetime', C.datetime_module(clock)))
    w.extra_patches.append((seeder, 'queue_class', SimQueue))
    w.extra_patches.append((seeder, 'Queue', SimQueueModule))

    onsim = b['type'] in ('file', 'compact')
    realdir = None
    if not onsim:
        _seq[0] += 1
        realdir = '/dev/shm/verif-c12-%d-%d' % (_REAL['os.getpid'](), _seq[0])
        os.makedirs(realdir)
    cache_conf = dict(b)
    link = cache_conf.pop('link', None)
    if b['type'] == 'compact':
        cache_conf['version'] = b['version']
    if b['type'] == 'sqlite':
        cache_conf['directory'] = realdir + '/sq'
    elif b['type'] == 'mbtiles':
        cache_conf['filename'] = realdir + '/c.mbtiles'
    if sc.get('wal'):
        cache_conf['sqlite_wal'] = True
    if sc.get('db_locked'):
        cache_conf['sqlite_timeout'] = 0.2
    elif b['type'] == 'geopackage':
        if b.get('levels'):
            cache_conf['directory'] = realdir + '/gp'
            cache_conf['levels'] = True
        else:
            cache_conf['filename'] = realdir + '/c.gpkg'
        cache_conf['table_name'] = 'tiles'
    conf = F.base_conf(cache_conf, meta_size=sc['meta_size'], link=link or False, refresh_before=sc.get('cache_refresh'))
    conf['grids']['g'] = dict(sc['grid'])
    two_grids = bool(sc.get('second_grid') and sc.get('levels_as_res') and b['type'] == 'file' and not link
                     and 'directory' not in cache_conf)
    if two_grids:
        conf['grids']['g0'] = {'srs': 'EPSG:4326', 'tile_size': [8, 8], 'num_levels': 4, 'origin': 'll'}
        conf['caches']['c1']['grids'] = ['g', 'g0']
    if sc.get('cache_coverage'):
        ext = sc['grid'].get('bbox') or [-U.H, -U.H, U.H, U.H]
        f = sc['cache_coverage']
        conf['caches']['c1']['cache']['coverage'] = {
            'bbox': [ext[0] + f[0] * (ext[2] - ext[0]), ext[1] + f[1] * (ext[3] - ext[1]),
                     ext[0] + max(f[2], f[0] + 0.125) * (ext[2] - ext[0]), ext[1] + max(f[3], f[1] + 0.125) * (ext[3] - ext[1])],
            'srs': sc['grid'].get('srs', 'EPSG:3857')}
    # a second cache next to the first one: a foreign object for the cleanup of c1
    conf['caches']['c2'] = {'grids': ['g'], 'sources': ['src'], 'format': 'image/png',
                            'cache': {'type': 'file', 'directory_layout': 'tc'}}
    conf['layers'].append({'name': 'lay2', 'title': 'x', 'sources': ['c2']})

    v = None
    probes = {}
    restore = []
    faults = {}
    unspecified = [0]
    result = {}

    def driver():
        pc = F.make_app(conf)[1]
        tm = [tmx for g_, _, tmx in pc.caches['c1'].caches() if getattr(g_, 'name', None) != 'g0'][0]
        tm2 = [tmx for _, _, tmx in pc.caches['c2'].caches()][0]
        cache = tm.cache
        grid = tm.grid
        nlev = grid.levels
        times_of = {}
        gbb = grid.bbox
        cov = None
        if sc['coverage'] and sc['coverage'][0] == 'edge':
            _, s0, s1, s2, s3 = sc['coverage']
            L = s0 % max(1, nlev - 1)
            rL, rf = grid.resolutions[L], grid.resolutions[nlev - 1]
            nx, ny = grid.grid_sizes[L]
            tw, th = grid.tile_size[0] * rL, grid.tile_size[1] * rL
            bx = gbb[0] + (1 + s1 % max(1, nx - 1)) * tw if nx > 1 else (gbb[0] + gbb[2]) / 2.0
            if ny > 1:
                by = gbb[1] + (1 + s2 % max(1, ny - 1)) * th if grid.origin not in ('ul', 'nw') else \
                    gbb[3] - (1 + s2 % max(1, ny - 1)) * th
            else:
                by = (gbb[1] + gbb[3]) / 2.0
            offs = [1.5 * rf, 3 * rf, rL / 20.0, rL / 12.0, -1.5 * rf]
            cov = [max(gbb[0], bx - 0.3 * (gbb[2] - gbb[0])), max(gbb[1], by - 0.25 * (gbb[3] - gbb[1])),
                   min(gbb[2], bx + offs[s3 % 5]), min(gbb[3], by + offs[(s3 // 5) % 5])]
            if not (cov[2] - cov[0] > 4 * rf and cov[3] - cov[1] > 4 * rf):
                cov = [gbb[0], gbb[1], (gbb[0] + gbb[2]) / 2.0, (gbb[1] + gbb[3]) / 2.0]
        elif sc['coverage'] and sc['coverage'][0] != 'shape':
            fx0, fy0, fx1, fy1 = sc['coverage']
            cov = [gbb[0] + fx0 * (gbb[2] - gbb[0]), gbb[1] + fy0 * (gbb[3] - gbb[1]),
                   gbb[0] + fx1 * (gbb[2] - gbb[0]), gbb[1] + fy1 * (gbb[3] - gbb[1])]
        geom = None
        cov_files = {}
        cov_confs = None
        if sc['coverage'] and sc['coverage'][0] == 'shape':
            from shapely.geometry import box as sbox, Polygon
            from shapely.ops import unary_union
            _, kind, s0 = sc['coverage']
            gw, gh = gbb[2] - gbb[0], gbb[3] - gbb[1]
            f = 0.3 + (s0 % 40) / 100.0
            if kind == 'triangle':
                geom = Polygon([(gbb[0], gbb[1]), (gbb[2], gbb[1]), (gbb[0], gbb[3])])
                cov_confs = {'cov': {'datasource': '/simfs/conf/cov.txt', 'srs': 'EPSG:3857'}}
                cov_files['/simfs/conf/cov.txt'] = geom.wkt + '\n'
            elif kind == 'empty2':
                # two coverages, both without any geometry today (expire-tiles directories nothing was written to): the task has
                # nothing to clean
                geom = Polygon()
                cov_confs = {'cov': {'expire_tiles': '/simfs/conf/expired1'},
                             'cov2': {'expire_tiles': '/simfs/conf/expired2'}}
                for d_ in ('/simfs/conf/expired1', '/simfs/conf/expired2'):
                    if not os.path.isdir(d_):
                        os.makedirs(d_)
            elif kind == 'lshape':
                geom = Polygon([(gbb[0], gbb[1]), (gbb[2], gbb[1]), (gbb[2], gbb[1] + f * gh), (gbb[0] + f * gw, gbb[1] + f * gh),
                                (gbb[0] + f * gw, gbb[3]), (gbb[0], gbb[3])])
                cov_confs = {'cov': {'datasource': '/simfs/conf/cov.txt', 'srs': 'EPSG:3857'}}
                cov_files['/simfs/conf/cov.txt'] = geom.wkt + '\n'
            else:
                b1 = [gbb[0], gbb[1], gbb[0] + f * gw * 0.5, gbb[1] + f * gh * 0.5]
                b2 = [gbb[2] - f * gw * 0.5, gbb[3] - f * gh * 0.5, gbb[2], gbb[3]]
                if kind == 'corners2':
                    b1[2] += 1000.0
                    b2[0] -= 1000.0
                geom = unary_union([sbox(*b1), sbox(*b2)])
                cov_confs = {'cov': {'bbox': b1, 'srs': 'EPSG:3857'}, 'cov2': {'bbox': b2, 'srs': 'EPSG:3857'}}
            cov = list(geom.bounds) if not geom.is_empty else [gbb[0], gbb[1], gbb[0] + 1e-6, gbb[1] + 1e-6]
        elif cov:
            from shapely.geometry import box as sbox
            geom = sbox(*cov)
        result['cov'] = cov if geom is None or sc['coverage'][0] != 'shape' else sc['coverage']
        tiles = []
        for item in sc['tiles']:
            (fx, fy, z), dt = item[0], item[1]
            z = min(z, nlev - 1)
            nx, ny = grid.grid_sizes[z]
            c = (fx * nx // 1000, fy * ny // 1000, z)
            if c not in [t_[0] for t_ in tiles]:
                tiles.append((c, dt, item[2] if len(item) > 2 else None))
        stamped = {}
        lingering = {}

        def settle():
            # database files live on a real tmpfs: what the real clock wrote as their time stamps is replaced by the simulated
            # time of the write; in WAL mode another process keeps a connection to every database file open
            if realdir is None:
                return
            import sqlite3
            for root, dirs, files in sorted(os.walk(realdir)):
                for fn in sorted(files):
                    pth = os.path.join(root, fn)
                    try:
                        ns = os.stat(pth).st_mtime_ns
                    except OSError:
                        continue
                    if stamped.get(pth) != ns:
                        os.utime(pth, (clock.now, clock.now))
                        stamped[pth] = os.stat(pth).st_mtime_ns
                    if sc.get('wal') and fn.endswith(('.mbtile', '.mbtiles')) and pth not in lingering:
                        con = sqlite3.connect(pth)
                        con.execute('SELECT count(*) FROM tiles').fetchall()
                        lingering[pth] = con
                        probes['wal_connections_kept_open'] = probes.get('wal_connections_kept_open', 0) + 1
        result['lingering'] = lingering
        for i, (coord, dt, colour) in enumerate(tiles):
            clock.now += dt
            t = C.make_tile(coord, C.payload({'color': colour} if colour else {'tok': 5000 + i, 'size': 0},
                                             w=U.TS, h=U.TS))
            cache.store_tile(t)
            times_of[tuple(coord)] = clock.now
            settle()
        for (ti, dt, same) in sc.get('restore') or []:
            i = min(ti, len(tiles) - 1)
            coord, _dt, colour = tiles[i]
            clock.now += dt
            if same:
                spec = {'color': colour} if colour else {'tok': 5000 + i, 'size': 0}
            else:
                spec = {'tok': 7000 + i, 'size': 0}
            cache.store_tile(C.make_tile(coord, C.payload(spec, w=U.TS, h=U.TS)))
            times_of[tuple(coord)] = clock.now
            settle()
            probes['tiles_stored_again'] = probes.get('tiles_stored_again', 0) + 1
        # foreign objects
        foreign_tile = (1, 1, 1)
        tm2.cache.store_tile(C.make_tile(foreign_tile, C.payload({'tok': 99, 'size': 0})))
        strays = []
        if onsim:
            for p in ('/simfs/cache/README.txt', '/simfs/locks/stale-1-1-1.lck', cache.cache_dir + '/tile_info.txt'):
                d = os.path.dirname(p)
                if not w.fs.exists(d):
                    os.makedirs(d)
                with open(p, 'wb') as f:
                    f.write(b'not a tile')
                strays.append(p)
        if hasattr(cache, 'cleanup'):
            cache.cleanup()
        # recorded timestamps (independent of the cache API for files)
        recorded = {}
        for coord in times_of:
            if b['type'] == 'file':
                # the tile's own write time: the link itself for linked single-colour tiles
                recorded[coord] = w.fs.stat(cache.tile_location(Tile(coord)), follow_symlinks=False, _yield=False).st_mtime
                # ... which must be the time of its latest store (in the file system's granularity): a tile is as new as
                # its latest store, whatever the backend wrote down
                res = w.fs.mtime_res
                want = float(int(times_of[coord] / res) * res) if res else times_of[coord]
                if abs(recorded[coord] - want) > 1e-6:
                    probes['recorded_time_differs_from_store_time'] = probes.get('recorded_time_differs_from_store_time', 0) + 1
                    recorded[coord] = want
            else:
                recorded[coord] = times_of[coord]
        # threshold
        k = min(sc['k'], len(tiles) - 1)
        tk = recorded[tuple(tiles[k][0])]
        if sc.get('old_dirs') and onsim:
            # the cache was restored from a backup (or copied with a tool that keeps file times only): every directory is
            # older than any tile in it
            for rel, val in w.fs.tree(copy=False).items():
                if val is None and rel.startswith('/cache'):
                    w.fs.utime('/simfs' + rel, (1.0e9, 1.0e9))
            probes['directories_older_than_their_tiles'] = 1
        clock.now += sc['after']
        mode = sc['mode']
        cconf = {'caches': ['c1'], 'grids': ['g']}
        if sc['levels'] is not None:
            lv, as_res = sc['levels'], None
            if sc.get('levels_as_res'):
                if isinstance(lv, list) and lv and all(l_ < nlev for l_ in lv):
                    as_res = [grid.resolutions[l_] for l_ in lv]
                elif isinstance(lv, dict) and lv and all(v_ < nlev for v_ in lv.values()):
                    as_res = dict((k_, grid.resolutions[v_]) for k_, v_ in lv.items())
            if as_res:
                cconf['resolutions'] = as_res
                probes['levels_given_as_resolutions'] = 1
                if two_grids:
                    cconf['grids'] = ['g0', 'g']
                    probes['cleanup_entry_with_two_grids'] = 1
            else:
                cconf['levels'] = lv
        T = None
        if mode == 'remove_all':
            cconf['remove_all'] = True
        elif mode == 'time':
            T = float(int(tk) + sc['delta'])
            cconf['remove_before'] = {'time': _iso(T)}
        elif mode == 'rel':
            secs = max(0, int(clock.now) - (int(tk) + sc['delta']))
            cconf['remove_before'] = {'seconds': secs}
            T = float(int(clock.now) - secs)
        elif mode == 'mtime':
            os.makedirs('/simfs/trigger')
            with open('/simfs/trigger/t.txt', 'wb') as f:
                f.write(b'x')
            w.fs.utime('/simfs/trigger/t.txt', (tk + sc['delta'], tk + sc['delta']))
            cconf['remove_before'] = {'mtime': '/simfs/trigger/t.txt'}
            T = tk + sc['delta']
        seed_conf = {'cleanups': {'cl': cconf}}
        if cov_confs:
            if not w.fs.exists('/simfs/conf'):
                os.makedirs('/simfs/conf')
            for pth, text in cov_files.items():
                with open(pth, 'w') as f_:
                    f_.write(text)
            seed_conf['coverages'] = cov_confs
            cconf['coverages'] = sorted(cov_confs)
        elif cov:
            seed_conf['coverages'] = {'cov': {'bbox': cov, 'srs': 'EPSG:3857'}}
            if sc.get('cov_srs') == '4326' and max(abs(v) for v in cov) < 0.999 * U.H:
                # the same area spelled in geographic coordinates (inverse Mercator written out here)
                import math

                def ll(x, y):
                    return [math.degrees(x / 6378137.0), math.degrees(2 * math.atan(math.exp(y / 6378137.0)) - math.pi / 2)]
                seed_conf['coverages'] = {'cov': {'bbox': ll(cov[0], cov[1]) + ll(cov[2], cov[3]), 'srs': 'EPSG:4326'}}
            cconf['coverages'] = ['cov']
        if sc.get('pre_task') and tm.cache.supports_timestamp and times_of:
            # an earlier cleanup task of the same run on the same cache (tasks of one run share the tile manager): it
            # removes nothing - everything is newer than its remove_before - but it has been there
            pre = {'caches': ['c1'], 'grids': ['g'], 'levels': sc['pre_task']['levels'],
                   'remove_before': {'time': _iso(min(times_of.values()) - 5000.0)}}
            if 'coverages' in cconf:
                pre['coverages'] = list(cconf['coverages'])
            seed_conf['cleanups'] = {'a_first': pre, 'cl': cconf}
            probes['two_tasks_in_one_run'] = 1
        t_conf0 = clock.now
        sconf = SeedingConfiguration(seed_conf, mapproxy_conf=pc)
        tasks = sconf.cleanups()
        t_conf1 = clock.now
        has_ts = tm.cache.supports_timestamp
        remove_all = mode == 'remove_all' or (mode == 'default' and not has_ts)
        if mode == 'default' and has_ts:
            Tlo, Thi = t_conf0, t_conf1
        elif T is not None:
            Tlo = Thi = T
        else:
            Tlo = Thi = None
        before = set(c for c in times_of if _present(w, cache, pc, c, b))
        if before != set(times_of):
            result['bad'] = ('store-lost', 'tiles %s are not in the cache after storing them' % sorted(set(times_of) - before))
            return
        if sc.get('vanish') is not None and onsim and b['type'] == 'file' and not b.get('link') and tiles:
            # a live server next to the cleanup: the temp file of a tile it is just writing sits in a tile directory and is
            # renamed away (here: removed) while the cleanup walks that directory
            from mapproxy.cache.tile import Tile as _Tile
            vt = tiles[sc['vanish'][0] % len(tiles)][0]
            tmp_path = cache.tile_location(_Tile(vt)) + '.tmp-4242'
            try:
                fdv = w.fs.os_open(tmp_path, os.O_CREAT | os.O_WRONLY, 0o644)
                w.fs.fd_write(fdv, b'partial tile data')
                w.fs.fd_close(fdv)
                w.fs.utime(tmp_path, (1.0e9, 1.0e9))
            except OSError:
                tmp_path = None
            if tmp_path is not None:
                def vanisher():
                    for _ in range(sc['vanish'][1]):
                        sched.yield_point('server-busy', 0)
                    try:
                        os.unlink(tmp_path)
                    except OSError:
                        pass
                sched.spawn(vanisher, 'server', w.new_proc('server'))
                faults['file_vanishes_during_walk'] = 1
        if sc.get('slow_remove'):
            # a stalled backend (network storage, a database busy with the live server): every removal takes seconds, the
            # walker's hand-off queue stays full for longer than its 5 s put time-out
            cls_ = type(tm.cache)
            orig_remove = cls_.remove_tile

            def slow_remove(self_, tile, *a, **kw):
                import time as _t
                _t.sleep(sc['slow_remove'])
                return orig_remove(self_, tile, *a, **kw)
            cls_.remove_tile = slow_remove
            restore.append(lambda: setattr(cls_, 'remove_tile', orig_remove))
            faults['slow_removals'] = 1
        out = io.StringIO()
        blocker = None
        if sc.get('db_locked') and realdir is not None:
            import sqlite3
            dbs = sorted(os.path.join(r_, f_) for r_, _d, fs_ in os.walk(realdir) for f_ in fs_ if f_.endswith(('.mbtile', '.mbtiles')))
            if dbs:
                blocker = sqlite3.connect(dbs[sc['k'] % len(dbs)], isolation_level=None)
                blocker.execute('BEGIN IMMEDIATE')
                faults['database_write_lock_held_by_other_process'] = 1
        reported_failure = False
        try:
            with contextlib.redirect_stdout(out):
                cleanup(tasks, concurrency=2, dry_run=False, skip_geoms_for_last_levels=0, verbose=False, progress_logger=None)
        except Exception as ex:
            if blocker is not None and type(ex).__name__ == 'OperationalError' and 'locked' in str(ex):
                reported_failure = True     # the cleanup said it failed: what it left behind is not judged
                probes['cleanup_failed_loudly_on_locked_database'] = 1
            elif not isinstance(ex, (NotImplementedError, OSError, KeyError, TypeError, ValueError, AttributeError)):
                raise
            else:
                import traceback
                result['bad'] = ('raises:' + type(ex).__name__, 'cleanup raised %r\n%s' % (ex, ''.join(traceback.format_tb(ex.__traceback__)[-3:])))
                return
        finally:
            if blocker is not None:
                blocker.execute('ROLLBACK')
                blocker.close()
        sched.check_alive()
        if hasattr(cache, 'cleanup'):
            cache.cleanup()
        # selected levels
        if sc['levels'] is None:
            sel = set(range(nlev))
        elif isinstance(sc['levels'], list):
            sel = set(l for l in sc['levels'] if l < nlev)
        else:
            sel = set(range(sc['levels'].get('from', 0), min(sc['levels'].get('to', nlev - 1), nlev - 1) + 1))
        from shapely.geometry import box as sbox
        fresh_cache = [tmx for g_, _, tmx in F.make_app(conf)[1].caches['c1'].caches() if getattr(g_, 'name', None) != 'g0'][0].cache
        n_removed = n_kept = 0
        for coord in sorted(times_of):
            present = _present(w, fresh_cache, pc, coord, b)
            ts = recorded[coord]
            cls = []
            if coord[2] not in sel:
                want = 'keep'
            else:
                if remove_all:
                    age = 'old'
                elif int(ts) < int(Tlo) and int(ts) < int(Thi):
                    age = 'old'
                elif int(ts) > int(Tlo) and int(ts) > int(Thi):
                    age = 'new'
                else:
                    age = '?'
                if cov:
                    tb = _tile_bbox(coord, sc['meta_size'], grid)
                    # mapproxy's grid arithmetic works with a sub-pixel tolerance: overlaps (or gaps) thinner than one
                    # pixel of that level are neither demanded nor forbidden
                    eps = grid.resolutions[coord[2]]
                    # removal is demanded once the coverage reaches a pixel of the finest selected level into the meta tile
                    eps_in = grid.resolutions[min(max(sel), nlev - 1)] if sel else eps
                    inner = (tb[0] + eps_in, tb[1] + eps_in, tb[2] - eps_in, tb[3] - eps_in)
                    outer = sbox(tb[0] - eps, tb[1] - eps, tb[2] + eps, tb[3] + eps)
                    if inner[2] > inner[0] and inner[3] > inner[1] and geom.intersects(sbox(*inner)):
                        covc = 'in'
                    elif not geom.intersects(outer):
                        covc = 'out'
                    else:
                        covc = '?'
                else:
                    covc = 'in'
                if age == 'new' or covc == 'out':
                    want = 'keep'
                elif age == 'old' and covc == 'in':
                    want = 'remove'
                else:
                    want = '?'
            if want == '?':
                unspecified[0] += 1
            elif want == 'keep' and not present:
                why = 'level %d is not selected' % coord[2] if coord[2] not in sel else \
                    ('it is newer (%s) than the threshold (%s)' % (_fmt(ts), _fmt(Thi)) if not remove_all and age == 'new'
                     else 'its meta tile lies outside the coverage')
                result['bad'] = ('removed-wrongly', 'tile %s was removed although %s' % (coord, why))
                return
            elif want == 'remove' and present and not reported_failure:
                result['bad'] = ('not-removed', 'tile %s (level selected, written %s, threshold %s, inside the coverage) was not '
                                 'removed' % (coord, _fmt(ts), 'remove_all' if remove_all else _fmt(Tlo)))
                return
            if want == 'remove':
                n_removed += 1
            elif want == 'keep':
                n_kept += 1
        result['removed'], result['kept'] = n_removed, n_kept
        # foreign objects
        t2 = C.make_tile(foreign_tile)
        if not tm2.cache.load_tile(t2):
            result['bad'] = ('foreign-removed', 'a tile of another cache (c2) was removed by the cleanup of c1')
            return
        for p in strays:
            if not w.fs.exists(p):
                result['bad'] = ('foreign-removed', 'the file %s, which is not a tile of the cache, was removed' % p)
                return

    err = []

    def driver_task():
        driver()

    try:
        with w:
            sched.spawn(driver_task, 'driver', w.main_proc)
            outcome = w.run_tasks()
            for t in sched.tasks:
                if t.exc is not None:
                    raise t.exc
            if 'bad' in result:
                v = {'sig': 'C12:%s:%s' % (result['bad'][0], name), 'msg': '%s [mode %s, levels %s, coverage %s]' % (
                    result['bad'][1], sc['mode'], sc['levels'], result.get('cov'))}
            elif outcome != 'done':
                v = {'sig': 'C12:hang:%s' % name, 'msg': 'cleanup did not terminate: %s %r' % (outcome, sched.stuck_info)}
    finally:
        for fn_ in restore:
            fn_()
        for con_ in (result.get('lingering') or {}).values():
            try:
                con_.close()
            except Exception:
                pass
        if realdir is not None:
            shutil.rmtree(realdir, ignore_errors=True)
    probes['tiles_required_removed'] = result.get('removed', 0)
    probes['tiles_required_kept'] = result.get('kept', 0)
    probes['mode_' + sc['mode']] = 1
    if sc['grid'].get('num_levels', 0) > 6:
        probes['deep_pyramid'] = 1
    if sc.get('tz', 'UTC') != 'UTC':
        probes['local_time_zone_not_utc'] = 1
    return {'violation': v, 'digest': C.digest_of(sc, sched.log if onsim else len(sched.log), w.fs.op_count, result.get('removed'), result.get('kept')),
            'nontrivial': result.get('removed', 0) > 0 and result.get('kept', 0) > 0, 'steps': sched.steps,
            'sim_time': clock.now - 1.7e9, 'faults': faults, 'probes': probes, 'unspecified': unspecified[0],
            'sample': {'backend': name, 'mode': sc['mode'], 'levels': sc['levels'], 'coverage': sc['coverage'],
                       'tiles': sc['tiles'][:10], 'removed': result.get('removed'), 'kept': result.get('kept')}}


def _present(w, cache, pc, coord, b):
    from mapproxy.cache.tile import Tile
    t = Tile(coord)
    api = bool(cache.load_tile(t))
    if b['type'] == 'file':
        raw = w.fs.exists(cache.tile_location(Tile(coord)))
        if raw != api:
            raise RuntimeError('cache API and raw listing disagree for %s: api=%s raw=%s' % (coord, api, raw))
    return api


def _fmt(ts):
    if ts is None:
        return 'None'
    return '%s+%.3f' % (_iso(int(ts)), ts - int(ts))


if __name__ == '__main__':
    import checks.c12 as me
    from simkit import driver
    driver.main(me)
