"""reference model (dict) + history generator/executor shared by C05 and C19"""
import copy

from checks import common as C

# addresses chosen to collide in every backend's internal addressing; all valid (x, y < 2**z)
CATALOGUE = [
    [0, 0, 0],
    [0, 0, 1], [1, 0, 1], [0, 1, 1], [1, 1, 1],
    [1, 1, 2], [0, 0, 2],
    [5, 7, 3], [5, 7, 4], [7, 5, 3], [7, 5, 4],
    [127, 127, 8], [128, 127, 8], [127, 128, 8], [128, 128, 8], [0, 128, 8], [1, 0, 8],
    [999, 1000, 12], [1000, 999, 12], [999, 999, 12], [1000, 1000, 12], [1, 0, 12], [0, 1, 12],
    [9999, 10000, 15], [10000, 9999, 15], [9999, 9999, 15],
    [999999, 1000000, 21], [1000000, 999999, 21], [1000, 999999, 21], [1, 1000, 21],
    [255, 255, 8], [256, 255, 9], [383, 128, 9],
    # one decimal digit apart in every position of x resp. y (path digit groups of the tc / mp layouts)
    [1234567, 654321, 21], [1234568, 654321, 21], [1234577, 654321, 21], [1234667, 654321, 21], [1235567, 654321, 21],
    [1244567, 654321, 21], [1334567, 654321, 21], [234567, 654321, 21],
    [1234567, 654322, 21], [1234567, 654331, 21], [1234567, 654421, 21], [1234567, 655321, 21], [1234567, 664321, 21],
    [1234567, 754321, 21], [1234567, 1654321, 21], [654321, 1234567, 21],
    # columns / rows that differ by a power of two (what a too narrow integer or bit mask folds together): 2^16, 2^20, 2^7
    [5, 7, 17], [65541, 7, 17], [5, 65543, 17], [131077, 7, 18], [5, 7, 18],
    [1048581, 9, 21], [5, 9, 21], [5, 1048585, 21], [133, 9, 21],
]
DIMSETS = [None, {'time': '2020'}, {'time': '2021'}, {'time': 'default'},
           {'time': '2020', 'elevation': '5'}, {'time': '2020', 'dim_level': '700'},
           # an ISO 8601 interval (the usual TIME value of a WMTS layer) and its look-alike without the solidus
           {'time': '2020-01-01/2020-02-01'}, {'time': '2020-01-01_2020-02-01'}]
COLORS = [[255, 0, 0], [0, 0, 255], [0, 0, 0]]


def akey(coord, dims):
    return (tuple(coord), tuple(sorted(dims.items())) if dims else ())


def gen_payload(t, link, big=False):
    if link and t.chance(0.4):
        return {'color': t.pick(COLORS)}
    size = t.weighted([(0, 10), (400, 4), (3000, 2), (9000, 2), (20000, 2 if big else 0), (-1, 1 if big else 0)])
    if size == -1:
        # payloads around the buffer sizes a reader might use (64 KiB, 128 KiB) and well beyond
        size = t.pick([65536, 65536, 131072, 200000]) + t.randint(-8, 8)
    elif size:
        size += t.randint(0, 700)
    return {'tok': t.choice(1 << 22), 'size': size}


def gen_history(t, nops, pool, dimsets, link, bulk_big=False, removes=True, big_payloads=False):
    """ops:
      ['store', coord, dims, payload]            ['store_many', dims, [[coord, payload], ...]]
      ['load', coord, dims]                      ['load_many', dims, [coord, ...], n_filler]
      ['is_cached', coord, dims]                 ['remove', coord, dims]
      ['reopen']                                 ['switch']  (go on through a second cache object on the same store)
    """
    ops = []
    for _ in range(nops):
        k = t.weighted([('store', 6), ('store_many', 3), ('load', 2), ('load_many', 3), ('is_cached', 1),
                        ('remove', 2 if removes else 0), ('reopen', 1), ('remove_many', 1 if removes else 0), ('load_meta', 1),
                        ('switch', 2), ('clock', 1)])
        d = t.pick(dimsets)
        if k == 'store':
            ops.append(['store', t.pick(pool), d, gen_payload(t, link, big_payloads)])
        elif k == 'store_many':
            n = t.randint(2, 5)
            cs = _distinct(t, pool, n)
            items = [[c, gen_payload(t, link, big_payloads)] for c in cs]
            if t.chance(0.15):
                # one address twice in one bulk store (with different bytes): the later list entry is the latest store
                i = t.choice(len(items))
                items.insert(t.randint(i + 1, len(items)), [items[i][0], gen_payload(t, link, big_payloads)])
            ops.append(['store_many', d, items])
        elif k == 'load':
            ops.append(['load', t.pick(pool), d])
        elif k == 'load_many':
            n = t.randint(2, 6)
            filler = t.pick([0, 0, 0, 340, 700]) if bulk_big else 0
            ops.append(['load_many', d, _distinct(t, pool, n), filler])
        elif k == 'is_cached':
            ops.append(['is_cached', t.pick(pool), d])
        elif k == 'remove':
            ops.append(['remove', t.pick(pool), d])
        elif k == 'remove_many':
            ops.append(['remove_many', d, _distinct(t, pool, t.randint(2, 4))])
        elif k == 'load_meta':
            ops.append(['load_meta', t.pick(pool), d])
        elif k == 'switch':
            ops.append(['switch'])
        elif k == 'clock':
            # the wall clock is stepped (NTP correction, VM resume) or simply time passes: no address may change
            ops.append(['clock', t.pick([-5, -1, -3600, 1.5, 61, 3600, 86400])])
        else:
            ops.append(['reopen'])
    return ops


def _distinct(t, pool, n):
    u = []
    for c in pool:
        if c not in u:
            u.append(c)
    out = []
    while u and len(out) < n:
        out.append(u.pop(t.choice(len(u))))
    return out


def shrink_ops(sc, key='ops'):
    ops = sc[key]
    # drop chunks, then single ops
    n = len(ops)
    size = n // 2
    while size >= 1:
        for i in range(0, n, size):
            c = copy.deepcopy(sc)
            del c[key][i:i + size]
            if len(c[key]) < n:
                yield c
        size //= 2
    for i, op in enumerate(ops):
        if op[0] == 'store_many' and len(op[2]) > 1:
            for j in range(len(op[2])):
                c = copy.deepcopy(sc)
                del c[key][i][2][j]
                yield c
        if op[0] == 'load_many':
            if op[3]:
                c = copy.deepcopy(sc)
                c[key][i][3] = 0
                yield c
            if len(op[2]) > 1:
                for j in range(len(op[2])):
                    c = copy.deepcopy(sc)
                    del c[key][i][2][j]
                    yield c
        if op[0] == 'store' and op[3].get('size'):
            c = copy.deepcopy(sc)
            c[key][i][3]['size'] = 0
            yield c
        if op[0] == 'store_many':
            for j, (coord, p) in enumerate(op[2]):
                if p.get('size'):
                    c = copy.deepcopy(sc)
                    c[key][i][2][j][1]['size'] = 0
                    yield c


class Mismatch(Exception):
    def __init__(self, kind, msg):
        Exception.__init__(self, msg)
        self.kind = kind
        self.msg = msg


class Runner(object):
    """applies ops to a real cache object and to the dict model, comparing as it goes"""

    def __init__(self, backend, make_cache, pool, dimsets, sweep=True, after_mutation=None):
        self.b = backend
        self.make = make_cache
        self.cache = make_cache()
        self.handles = [self.cache, None]   # two cache objects on the same store (two processes' views), used alternately
        self.cur = 0
        self.model = {}
        self.pool = pool
        self.dimsets = dimsets
        self.sweep_enabled = sweep
        self.after_mutation = after_mutation
        self.n_compared = 0
        self.overwrites = 0
        self.removes_of_present = 0
        self.in_mutation = False
        self.fault_in_call = False
        self.failed_keys = None     # addresses touched by an operation that raised an injected fault
        self.clock = None           # the simulated clock, if the history may step it
        self.call_seq = 0           # number of mutating calls started (a sticky fault lasts until its call returns)

    # -- primitive accessors ---------------------------------------------
    def _load1(self, coord, dims):
        t = C.make_tile(coord)
        ok = self.cache.load_tile(t, dimensions=dims) if dims is not None else self.cache.load_tile(t)
        data = C.read_tile_bytes(t) if t.source is not None else None
        return ok, data

    def expect(self, coord, dims):
        return self.model.get(akey(coord, dims))

    def _cmp(self, what, coord, dims, got, relaxed_ok=None):
        exp = self.expect(coord, dims)
        self.n_compared += 1
        if got == exp:
            return
        k = akey(coord, dims)
        if self.failed_keys is not None and k in self.failed_keys:
            allowed = self.failed_keys[k]
            if got is None or got in allowed:
                return
        kind = 'wrong-bytes'
        if got is None:
            kind = 'lost'
        elif exp is None:
            kind = 'phantom'
        # foreign = bytes that belong to another address
        for k2, v in self.model.items():
            if v == got and k2 != k:
                kind = 'foreign'
                break
        raise Mismatch(kind, '%s: address %s dims=%s returns %s, the model (latest store) says %s' % (
            what, tuple(coord), dims, C.describe(got), C.describe(exp)))

    def sweep(self, what):
        if not self.sweep_enabled:
            return
        for dims in self.dimsets:
            for coord in self.pool:
                ok, data = self._load1(coord, dims)
                if bool(ok) != (data is not None):
                    raise Mismatch('load-flag', '%s: load_tile(%s, %s) returned %r but source is %s' % (
                        what, tuple(coord), dims, ok, C.describe(data)))
                self._cmp(what + ' / sweep', coord, dims, data)

    # -- operations --------------------------------------------------------
    def apply(self, op, index):
        kind = op[0]
        what = 'op#%d %s' % (index, _opstr(op))
        cache = self.cache
        if kind == 'store':
            _, coord, dims, p = op
            data = C.payload(p)
            k = akey(coord, dims)
            if k in self.model:
                self.overwrites += 1
            t = C.make_tile(coord, data)
            self._guard(lambda: cache.store_tile(t, dimensions=dims) if dims is not None else cache.store_tile(t),
                        {k: data})
            self.sweep(what)
        elif kind == 'store_many':
            _, dims, items = op
            tiles = [C.make_tile(c, C.payload(p)) for c, p in items]
            new = {}
            alts = {}
            for c, p in items:
                k = akey(c, dims)
                if k in self.model:
                    self.overwrites += 1
                new[k] = C.payload(p)
                alts.setdefault(k, []).append(new[k])
            self._guard(lambda: cache.store_tiles(tiles, dimensions=dims) if dims is not None
                        else cache.store_tiles(tiles), new, alts)
            self.sweep(what)
        elif kind == 'remove':
            _, coord, dims = op
            k = akey(coord, dims)
            if k in self.model:
                self.removes_of_present += 1
            t = C.make_tile(coord)
            self._guard(lambda: cache.remove_tile(t, dimensions=dims) if dims is not None else cache.remove_tile(t),
                        {k: None})
            self.sweep(what)
        elif kind == 'remove_many':
            _, dims, coords = op
            new = {}
            for c in coords:
                k = akey(c, dims)
                if k in self.model:
                    self.removes_of_present += 1
                new[k] = None
            tiles = [C.make_tile(c) for c in coords]
            self._guard(lambda: cache.remove_tiles(tiles, dimensions=dims) if dims is not None else cache.remove_tiles(tiles), new)
            self.sweep(what)
        elif kind == 'load_meta':
            # a load that also asks for the metadata must return the same bytes (and a timestamp if there is a tile)
            _, coord, dims = op
            t = C.make_tile(coord)
            ok = cache.load_tile(t, with_metadata=True, dimensions=dims) if dims is not None else cache.load_tile(t, with_metadata=True)
            data = C.read_tile_bytes(t) if t.source is not None else None
            if bool(ok) != (data is not None):
                raise Mismatch('load-flag', '%s: load_tile returned %r but source is %s' % (what, ok, C.describe(data)))
            self._cmp(what, coord, dims, data)
        elif kind == 'load':
            _, coord, dims = op
            ok, data = self._load1(coord, dims)
            if bool(ok) != (data is not None):
                raise Mismatch('load-flag', '%s: load_tile returned %r but source is %s' % (what, ok, C.describe(data)))
            self._cmp(what, coord, dims, data)
        elif kind == 'is_cached':
            _, coord, dims = op
            t = C.make_tile(coord)
            got = cache.is_cached(t, dimensions=dims) if dims is not None else cache.is_cached(t)
            exp = self.expect(coord, dims) is not None
            k = akey(coord, dims)
            if bool(got) != exp and not (self.failed_keys is not None and k in self.failed_keys):
                raise Mismatch('is-cached', '%s: is_cached says %r, the model says %r' % (what, got, exp))
        elif kind == 'load_many':
            _, dims, coords, nfill = op
            allc = [list(c) for c in coords]
            # filler addresses are never stored: they exercise the 999-argument batching
            for i in range(nfill):
                allc.insert((i * 7) % (len(allc) + 1), [3000 + i, 2000 + (i % 50), 13])
            tiles = [C.make_tile(c) for c in allc]
            ret = cache.load_tiles(tiles, dimensions=dims) if dims is not None else cache.load_tiles(tiles)
            all_present = True
            for c, t in zip(allc, tiles):
                data = C.read_tile_bytes(t) if t.source is not None else None
                if c[2] == 13 and c[0] >= 3000:
                    if data is not None:
                        raise Mismatch('phantom', '%s: never stored filler %s returned %s' % (what, c, C.describe(data)))
                    all_present = False
                    continue
                self._cmp(what, c, dims, data)
                if data is None:
                    all_present = False
            if bool(ret) != all_present and self.failed_keys is None:
                raise Mismatch('bulk-flag', '%s: load_tiles returned %r although %s' % (
                    what, ret, 'every tile was loaded' if all_present else 'not every tile was loaded'))
        elif kind == 'reopen':
            if hasattr(cache, 'cleanup'):
                cache.cleanup()
            # no sweep here: the next operation of the history is the first thing the fresh object does (a sweep would
            # open every level / bundle first)
            self.cache = self.handles[self.cur] = self.make()
        elif kind == 'clock':
            if self.clock is not None:
                self.clock.now = max(1.0e9, self.clock.now + op[1])
            self.sweep(what)
        elif kind == 'switch':
            # continue through the other cache object; the first one stays open (an idle worker of another process)
            self.cur ^= 1
            if self.handles[self.cur] is None:
                self.handles[self.cur] = self.make()
            self.cache = self.handles[self.cur]
        else:
            raise ValueError(op)

    def _guard(self, fn, new, alts=None):
        """run a mutating call; new: {key: bytes|None}.  An injected I/O fault (marked OSError) relaxes
        exactly the touched addresses to {old, new, missing}."""
        self.in_mutation = True
        self.fault_in_call = False
        self.call_seq += 1
        try:
            fn()
        except Exception as ex:
            self.in_mutation = False
            # the call failed because of the injected fault (possibly re-wrapped by the code under test)
            if not (getattr(ex, 'injected', False) or self.fault_in_call):
                raise
            ex = None
            # objects kept alive only by reference cycles of the failed call (exception <-> frames) are
            # what the cyclic GC would free sooner or later; do it now, deterministically (gc is disabled
            # during a run, and a leaked descriptor would keep a bundle lock for ever)
            import gc
            gc.collect()
            if self.failed_keys is None:
                self.failed_keys = {}
            for k, v in new.items():
                s = self.failed_keys.setdefault(k, set())
                s.add(v)
                s.add(self.model.get(k))
                # (an address given twice in one bulk store: the call may have got as far as the earlier entry)
                for v2 in (alts or {}).get(k, ()):
                    s.add(v2)
            return False
        finally:
            self.in_mutation = False
        for k, v in new.items():
            if v is None:
                self.model.pop(k, None)
            else:
                self.model[k] = v
            if self.failed_keys is not None and k in self.failed_keys:
                # a later successful operation restores exact semantics for this address
                del self.failed_keys[k]
        if self.after_mutation is not None:
            self.after_mutation(self)
        return True


def _opstr(op):
    k = op[0]
    if k == 'store':
        return 'store %s dims=%s %s' % (tuple(op[1]), op[2], op[3])
    if k == 'store_many':
        return 'store_tiles dims=%s %s' % (op[1], [tuple(c) for c, p in op[2]])
    if k == 'load_many':
        return 'load_tiles dims=%s %s +%d filler' % (op[1], [tuple(c) for c in op[2]], op[3])
    if k == 'clock':
        return 'clock %+g s' % op[1]
    if k == 'remove_many':
        return 'remove_tiles dims=%s %s' % (op[1], [tuple(c) for c in op[2]])
    if k in ('load', 'is_cached', 'remove', 'load_meta'):
        return '%s %s dims=%s' % (k, tuple(op[1]), op[2])
    return k
