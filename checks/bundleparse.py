"""Independent reader of ArcGIS compact cache bundles (v1: .bundlx + .bundle, v2: .bundle),
written from the format description, NOT importing mapproxy.cache.compact.

v2 (.bundle): 64 byte header, then 128*128 index entries of 8 bytes (little endian):
    low 40 bits = offset of the tile data, high 24 bits = size; size 0 = no tile.
    entry index = 128 * (row % 128) + (col % 128).  A record is <u32 size><data>, offset points at data.
v1 (.bundlx): 16 byte header, 128*128 entries of 5 bytes (little endian offset into .bundle), 16 byte footer;
    entry index = 128 * (col % 128) + (row % 128).  (.bundle): 60 byte header, then records <u32 size><data>;
    an index entry points at the u32 size; size 0 = no tile.  Offset 0 = removed.
"""
import struct


class Invalid(Exception):
    pass


def v2_entries(b):
    if len(b) < 64 + 128 * 128 * 8:
        raise Invalid('v2 bundle shorter than header+index: %d bytes' % len(b))
    import numpy as np
    vals = np.frombuffer(b, dtype='<u8', count=128 * 128, offset=64)
    sizes = vals >> np.uint64(40)
    nz = np.nonzero(sizes)[0]
    mask = (1 << 40) - 1
    return [(int(i), int(vals[i]) & mask, int(sizes[i])) for i in nz]


def v2_validate(b, name=''):
    recs = []
    for i, off, size in v2_entries(b):
        col, row = i % 128, i // 128
        if off < 64 + 128 * 128 * 8 + 4:
            raise Invalid('%s: v2 entry (col %d,row %d) offset %d points into header/index' % (name, col, row, off))
        if off + size > len(b):
            raise Invalid('%s: v2 entry (col %d,row %d) offset %d size %d beyond end of file (%d)' % (
                name, col, row, off, size, len(b)))
        rs, = struct.unpack_from('<I', b, off - 4)
        if rs != size:
            raise Invalid('%s: v2 entry (col %d,row %d) size %d but record header says %d' % (name, col, row, size, rs))
        recs.append((off - 4, off + size, (col, row)))
    _disjoint(recs, name)
    return len(recs)


def v2_read(b, col, row):
    i = 128 * (row % 128) + (col % 128)
    v, = struct.unpack_from('<Q', b, 64 + i * 8)
    size = v >> 40
    off = v & ((1 << 40) - 1)
    if not size:
        return None
    return bytes(b[off:off + size])


def v1_entries(idx):
    if len(idx) != 16 + 128 * 128 * 5 + 16:
        raise Invalid('v1 index has %d bytes, expected %d' % (len(idx), 16 + 128 * 128 * 5 + 16))
    import numpy as np
    a = np.frombuffer(idx, dtype=np.uint8, count=128 * 128 * 5, offset=16).reshape(128 * 128, 5).astype(np.uint64)
    offs = a[:, 0] | (a[:, 1] << np.uint64(8)) | (a[:, 2] << np.uint64(16)) | (a[:, 3] << np.uint64(24)) | \
        (a[:, 4] << np.uint64(32))
    return offs


def v1_validate(idx, data, name=''):
    import numpy as np
    offs = v1_entries(idx)
    n = len(data)
    d = np.frombuffer(data, dtype=np.uint8)
    nz = offs != 0
    bad = nz & (offs + np.uint64(4) > np.uint64(n))
    if bad.any():
        i = int(np.nonzero(bad)[0][0])
        raise Invalid('%s: v1 entry (col %d,row %d) offset %d beyond end of bundle (%d)' % (
            name, i // 128, i % 128, int(offs[i]), n))
    idxs = np.nonzero(nz)[0]
    o = offs[idxs].astype(np.int64)
    sizes = d[o].astype(np.uint64) | (d[o + 1].astype(np.uint64) << np.uint64(8)) | \
        (d[o + 2].astype(np.uint64) << np.uint64(16)) | (d[o + 3].astype(np.uint64) << np.uint64(24))
    recs = []
    for k in np.nonzero(sizes)[0]:
        i = int(idxs[k])
        off = int(o[k])
        s = int(sizes[k])
        col, row = i // 128, i % 128
        if off < 60:
            raise Invalid('%s: v1 entry (col %d,row %d) offset %d points into the header' % (name, col, row, off))
        if off + 4 + s > n:
            raise Invalid('%s: v1 entry (col %d,row %d) offset %d size %d beyond end of bundle (%d)' % (
                name, col, row, off, s, n))
        recs.append((off, off + 4 + s, (col, row)))
    _disjoint(recs, name)
    return len(recs)


def v1_read(idx, data, col, row):
    i = 128 * (col % 128) + (row % 128)
    off = int.from_bytes(idx[16 + i * 5:16 + i * 5 + 5], 'little')
    if off == 0 or off + 4 > len(data):
        return None
    s, = struct.unpack_from('<I', data, off)
    if s == 0:
        return None
    return bytes(data[off + 4:off + 4 + s])


def _disjoint(recs, name):
    recs.sort()
    for a, b in zip(recs, recs[1:]):
        if b[0] < a[1]:
            raise Invalid('%s: live records of tiles %s and %s overlap ([%d,%d) and [%d,%d))' % (
                name, a[2], b[2], a[0], a[1], b[0], b[1]))


def bundle_base(coord):
    x, y, z = coord
    c = x // 128 * 128
    r = y // 128 * 128
    return 'L%02d/R%04xC%04x' % (z, r, c)


def validate_tree(tree, version, root='/cache'):
    """tree: {relative path: bytes} from SimFS.tree(); returns number of live records"""
    n = 0
    for path, content in sorted(tree.items()):
        if not path.startswith(root + '/') or not isinstance(content, (bytes, bytearray)):
            continue
        if path.endswith('.bundle') and '/tmp_defrag' not in path:
            if version == 2:
                n += v2_validate(content, path)
            else:
                idx = tree.get(path[:-len('.bundle')] + '.bundlx')
                if idx is None:
                    # data file without index: nothing can be addressed, trivially valid
                    continue
                n += v1_validate(idx, content, path)
    return n


def read_tree(tree, version, coord, root='/cache'):
    base = root + '/' + bundle_base(coord)
    data = tree.get(base + '.bundle')
    if data is None:
        return None
    if version == 2:
        if len(data) < 64 + 128 * 128 * 8:
            return None
        return v2_read(data, coord[0], coord[1])
    idx = tree.get(base + '.bundlx')
    if idx is None:
        return None
    return v1_read(idx, data, coord[0], coord[1])
