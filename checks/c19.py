"""C19 - compact bundles stay structurally valid; defragmentation loses nothing.

Sequential configuration: seeded store / bulk store / overwrite / remove histories on the real
CompactCacheV1/V2 over SimFS; after EVERY operation the bundle bytes are parsed by an independent
reader (checks/bundleparse.py) and compared with the reference model; then the real
defrag_compact_cache runs with seeded thresholds and every address must read the same bytes,
no bundle file may have grown, and the structure must still be valid.

Concurrent-writer configuration: the same kind of histories split over 2-3 simulated processes
scheduled at file-system-call granularity (this is what the bundle lock exists for); structure and
contents are checked at quiescence, reads during the run must never return foreign bytes.
"""
import copy
import os
import sys

sys.path.insert(0, os.path.dirname(os.path.dirname(os.path.abspath(__file__))))

from simkit.world import World  # noqa: E402
from checks import common as C  # noqa: E402
from checks import cachemodel as M  # noqa: E402
from checks import bundleparse as BP  # noqa: E402

PROP = 'C19'
LEVEL = 'exploration'
VERSION = 1
BUDGET = {'quick': 80, 'thorough': 600}
CHUNK = {'quick': 10, 'thorough': 20}
RULE = ('one case = one seeded history (4-40 ops: store, bulk store, overwrite, remove, load, reopen, defrag with seeded '
        'thresholds - also dry, or with one failing open()) on compact v1 or v2, sequential or split over 2-4 concurrently scheduled writers (processes with their own cache objects, or threads sharing one - which may also be switched between two statements of compact.py); about one case in 100 instead works on a bundle extended beyond 4 GiB (sparse file on tmpfs, outside SimFS) (incl. a contention form: 3-4 writers storing into one bundle, retry timers firing while the holder still runs); '
        'non-trivial = the history overwrote or removed a stored tile (fragmentation exists) and was parsed/defragmented '
        'afterwards, or (concurrent) two processes overlapped inside one bundle; distinct = distinct hash of '
        '(version, operations, schedule event log)')
COMPONENTS = {
    'real': ['mapproxy.cache.compact (CompactCacheV1/V2, BundleV1/V2, index/data classes)',
             'mapproxy.script.defrag.defrag_compact_cache', 'mapproxy.util.lock.FileLock (bundle lock)',
             'mapproxy.util.fs.write_atomic', 'glob/os.walk (stdlib, over SimFS)', 'CPython io buffering'],
    'stub': ['file system + flock (SimFS)', 'scheduler choice (concurrent configuration; in the threads mode also between statements of compact.py)', 'clock (may step forward while writers work)'],
    'independent_oracle': ['checks/bundleparse.py (bundle reader written from the format description)'],
}
ASSUMPTIONS = [
    'structural validity as stated in the property: every index entry empty or pointing at a complete in-file record whose '
    'recorded size matches; additionally live records must not overlap',
    'concurrent configuration: pre-emption at file-system calls only; defragmentation is not run concurrently with writers',
]

# two bundles on level 8, one bundle on levels 9 and 3, bundle borders
POOL = [[127, 127, 8], [128, 127, 8], [127, 128, 8], [0, 0, 8], [1, 0, 8], [0, 1, 8], [255, 255, 8], [126, 127, 8],
        [256, 255, 9], [383, 128, 9], [5, 7, 3], [7, 5, 3], [0, 0, 0]]


_huge_seq = [0]
_CDIR = [C.CACHE_DIR]      # cache directory of the running case


def _gen_huge(t):
    """a bundle that has grown beyond 4 GiB (the formats have 40-bit offsets): built as a sparse file on a real tmpfs
    directory - 4 GiB of dead records cost nothing there"""
    one = [[0, 0, 8], [1, 0, 8], [0, 1, 8], [126, 127, 8], [127, 127, 8], [5, 9, 8], [100, 3, 8], [64, 64, 8]]
    n = t.randint(3, 6)
    pool = one[:n]
    return {'kind': 'huge', 'version': t.pick([2, 2, 1]), 'pool': pool, 'extra': t.pick([1000, 12345, 70000, (1 << 31) + 999]),
            'before': [[t.pick(pool), M.gen_payload(t, None, big=False)] for _ in range(t.randint(1, 4))],
            'after': [[t.pick(pool), M.gen_payload(t, None, big=False)] for _ in range(t.randint(2, 5))],
            'bulk': bool(t.choice(2))}


def _run_huge(sc, tape):
    import glob
    import mmap
    import shutil
    from simkit.world import _REAL
    from mapproxy.script.defrag import defrag_compact_cache
    version = sc['version']
    b = {'type': 'compact', 'version': version}
    name = C.backend_name(b)
    _huge_seq[0] += 1
    d = '/dev/shm/verif-c19-%d-%d' % (_REAL['os.getpid'](), _huge_seq[0])
    os.makedirs(d)
    v = None
    model = {}

    def structure(what):
        for bf in glob.glob(d + '/cache/L*/*.bundle'):
            with open(bf, 'rb') as f:
                mm = mmap.mmap(f.fileno(), 0, access=mmap.ACCESS_READ)
                try:
                    if version == 2:
                        BP.v2_validate(mm, os.path.basename(bf))
                    else:
                        with open(bf[:-len('.bundle')] + '.bundlx', 'rb') as fi:
                            BP.v1_validate(fi.read(), mm, os.path.basename(bf))
                except BP.Invalid as ex:
                    raise M.Mismatch('invalid-structure', '%s: %s' % (what, ex))
                finally:
                    mm.close()

    def contents(cache, what):
        for c in sc['pool']:
            t_ = C.make_tile(c)
            cache.load_tile(t_)
            got = C.read_tile_bytes(t_) if t_.source is not None else None
            if got != model.get(tuple(c)):
                raise M.Mismatch('wrong-bytes' if got is not None and model.get(tuple(c)) is not None else ('lost' if got is None else 'phantom'),
                                 '%s: address %s returns %s, the latest store was %s' % (what, tuple(c), C.describe(got), C.describe(model.get(tuple(c)))))
    try:
        cache = C.make_cache(b, d + '/cache')
        for c, p in sc['before']:
            cache.store_tile(C.make_tile(c, C.payload(p)))
            model[tuple(c)] = C.payload(p)
        bundles = glob.glob(d + '/cache/L*/*.bundle')
        size0 = os.path.getsize(bundles[0])
        # 4 GiB (+ a bit) of what used to be tile records: the file is now larger than 32 bits can address
        os.truncate(bundles[0], (1 << 32) + sc['extra'])
        cache = C.make_cache(b, d + '/cache')
        if sc['bulk']:
            seen = {}
            for c, p in sc['after']:
                seen[tuple(c)] = p
            cache.store_tiles([C.make_tile(list(c), C.payload(p)) for c, p in seen.items()])
            for c, p in seen.items():
                model[c] = C.payload(p)
        else:
            for c, p in sc['after']:
                cache.store_tile(C.make_tile(c, C.payload(p)))
                model[tuple(c)] = C.payload(p)
        structure('after stores into a bundle larger than 4 GiB')
        contents(C.make_cache(b, d + '/cache'), 'bundle larger than 4 GiB')
        big = os.path.getsize(bundles[0])
        defrag_compact_cache(C.make_cache(b, d + '/cache'), min_percent=0, min_bytes=0)
        structure('after defragmenting the large bundle')
        contents(C.make_cache(b, d + '/cache'), 'after defragmenting the large bundle')
        if os.path.getsize(bundles[0]) > big:
            raise M.Mismatch('defrag-grew', 'defragmentation grew the bundle from %d to %d bytes' % (big, os.path.getsize(bundles[0])))
    except M.Mismatch as m:
        v = {'sig': 'C19:%s:%s:bundle-over-4GiB' % (m.kind, name), 'msg': m.msg}
    finally:
        shutil.rmtree(d, ignore_errors=True)
    return {'violation': v, 'digest': C.digest_of('huge', sc), 'nontrivial': True, 'steps': len(sc['after']), 'sim_time': 0.0,
            'faults': {}, 'probes': {'bundle_over_4GiB': 1},
            'sample': {'mode': 'bundle larger than 4 GiB (sparse file on tmpfs)', 'backend': name}}


def _gen_rows(t):
    """a well-filled bundle: several complete rows of 128 tiles (what seeding a region leaves behind), a few overwrites and a
    removal, then a defragmentation"""
    return {'kind': 'rows', 'version': t.pick([1, 2]), 'rows': t.pick([1, 3, 4, 4, 5, 8]), 'level': t.pick([8, 9]),
            'overwrite': [[t.choice(128), t.choice(8)] for _ in range(t.randint(1, 6))], 'remove': [t.choice(128), t.choice(8)],
            'bufsize': t.pick([4096, 8192])}


def _run_rows(sc, tape):
    version = sc['version']
    b = {'type': 'compact', 'version': version}
    name = C.backend_name(b)
    w = World(tape, with_sched=False)
    v = None
    probes = {'bundle_with_complete_rows': 1}
    _CDIR[0] = C.CACHE_DIR
    z = sc['level']
    coords = [(x, y, z) for y in range(sc['rows']) for x in range(128)]
    with w:
        w.fs.buffer_size = sc['bufsize']
        try:
            cache = C.make_cache(b, C.CACHE_DIR)
            for y in range(sc['rows']):
                cache.store_tiles([C.make_tile((x, y, z), C.payload({'tok': 100000 + y * 128 + x, 'size': 0})) for x in range(128)])
            for i, (x, y) in enumerate(sc['overwrite']):
                y = y % sc['rows']
                cache.store_tile(C.make_tile((x, y, z), C.payload({'tok': 900000 + i, 'size': 300})))
            rx, ry = sc['remove'][0], sc['remove'][1] % sc['rows']
            cache.remove_tile(C.make_tile((rx, ry, z)))
            _validate(w, version, 'bundle with %d complete rows' % sc['rows'])
            _defrag(w, C.make_cache(b, C.CACHE_DIR), version, coords, None, ['defrag', 0, 0, False, None],
                    'defragmenting a bundle with %d complete rows' % sc['rows'], probes)
            _validate(w, version, 'after defragmenting a bundle with %d complete rows' % sc['rows'])
        except M.Mismatch as m:
            v = {'sig': 'C19:%s:%s:full-rows' % (m.kind, name), 'msg': m.msg}
    return {'violation': v, 'digest': C.digest_of('rows', sc), 'nontrivial': True, 'steps': len(coords), 'sim_time': 0.0,
            'faults': {}, 'probes': probes,
            'sample': {'mode': 'bundle with complete rows', 'backend': name, 'rows': sc['rows']}}


def gen(t, tier):
    if t.chance(0.01):
        return _gen_huge(t)
    if t.chance(0.015):
        return _gen_rows(t)
    version = t.pick([1, 2])
    mode = t.weighted([('seq', 3), ('conc', 2)])
    npool = t.randint(2, 8)
    start = t.choice(len(POOL))
    pool = []
    for i in range(npool):
        c = POOL[(start + i) % len(POOL)] if t.chance(0.7) else t.pick(POOL)
        if c not in pool:
            pool.append(c)
    sc = {'version': version, 'mode': mode, 'pool': pool, 'bufsize': t.pick([4096, 8192, 65536]),
          'cache_dir': t.pick([None, None, None, '/simfs/esri.bundles/cache', '/simfs/data.bundlx/c'])}
    if mode == 'seq':
        nops = t.randint(4, 25 if tier == 'quick' else 40)
        ops = M.gen_history(t, nops, pool, [None], None, big_payloads=True)
        # sprinkle defrag operations, always one at the end
        for _ in range(t.randint(0, 2)):
            ops.insert(t.choice(len(ops) + 1), _gen_defrag(t))
        ops.append(_gen_defrag(t))
        sc['ops'] = ops
        if t.chance(0.3):
            sc['fault'] = {'errno': t.pick(['ENOSPC', 'EIO']), 'sticky': bool(t.chance(0.6)), 'at': t.choice(60)}
    elif t.chance(0.35):
        # contention: three or four writers, every operation a store or a remove in ONE bundle (the windows that need a
        # third party - a lock file removed under its new holder - only open with more than two writers)
        nproc = t.randint(3, 4)
        sc['policy'] = t.pick([['sticky', 0.3], ['sticky', 0.6], ['random'], ['random']])
        sc['shared'] = False
        one = [[0, 0, 8], [1, 0, 8], [0, 1, 8], [126, 127, 8], [127, 127, 8], [5, 9, 8], [100, 3, 8], [64, 64, 8]]
        sc['pool'] = pool = one[:2 * nproc]
        procs = []
        for p in range(nproc):
            mine = pool[2 * p:2 * p + 2]
            ops = []
            for _ in range(t.randint(1, 3)):
                if ops and t.chance(0.2):
                    ops.append(['remove', t.pick(mine), None])
                else:
                    ops.append(['store', t.pick(mine), None, M.gen_payload(t, None, big=False)])
            procs.append(ops)
        sc['procs'] = procs
        sc['ops'] = [_gen_defrag(t)] if t.chance(0.3) else []
    else:
        nproc = t.randint(2, 3)
        sc['policy'] = t.pick([['sticky', 0.1], ['sticky', 0.3], ['random']])
        sc['shared'] = bool(t.chance(0.3))      # may two processes write the same address?
        procs = []
        for p in range(nproc):
            mine = pool if sc['shared'] else [c for i, c in enumerate(pool) if i % nproc == p]
            if not mine:
                mine = [pool[0]] if sc['shared'] else []
            n = t.randint(1, 5)
            ops = M.gen_history(t, n, mine, [None], None, big_payloads=True) if mine else []
            ops = [o for o in ops if o[0] != 'reopen']
            procs.append(ops)
        sc['procs'] = procs
        sc['ops'] = [_gen_defrag(t)] if t.chance(0.5) else []
    if mode == 'conc':
        sc['threads'] = bool(t.chance(0.3))     # writers are threads sharing one cache object instead of processes
        # let waiters' retry timers fire while the holder is still running (otherwise a waiter only ever wakes up after the
        # holder has left unlock() completely)
        sc['eager'] = bool(t.chance(0.6))
        # threads can also be switched between two statements of compact.py (line events), not only at system calls
        sc['linepreempt'] = t.pick([None, 40, 300, 2000]) if sc['threads'] else None
        # the wall clock jumps forward (NTP step, resumed virtual machine) while the writers are at work: waiting writers may
        # give up with a lock time-out, nobody may get into a bundle that another writer is still inside
        # every second writer process reaches the cache directory under another spelling (through a symbolic link, as a seeding
        # tool started with another configuration would): the same bundles must still be protected by the same locks
        sc['alias'] = not sc['threads'] and bool(t.chance(0.3))
        sc['clock_jump'] = {'at': t.choice(300), 'by': t.pick([100.0, 600.0, 4000.0])} if t.chance(0.3) else None
    return sc


def _gen_defrag(t):
    return ['defrag', t.pick([0, 0, 0.01, 0.1, 0.9]), t.pick([0, 0, 100, 1024 * 1024]), bool(t.chance(0.15)),
            t.pick([None, None, None, t.choice(6), 1 + t.choice(40), 2 + t.choice(130)])]


def shrink(sc):
    if sc.get('kind') == 'rows':
        if len(sc['overwrite']) > 1:
            c = copy.deepcopy(sc)
            c['overwrite'] = sc['overwrite'][:1]
            yield c
        return
    if sc.get('kind') == 'huge':
        for key in ('before', 'after'):
            for i in range(len(sc[key])):
                if len(sc[key]) > 1:
                    c = copy.deepcopy(sc)
                    del c[key][i]
                    yield c
        return
    if sc.get('fault'):
        c = copy.deepcopy(sc)
        del c['fault']
        yield c
        if sc['fault']['at'] > 0:
            for a in (0, sc['fault']['at'] // 2, sc['fault']['at'] - 1):
                c = copy.deepcopy(sc)
                c['fault']['at'] = a
                yield c
    for c in M.shrink_ops(sc):
        if c['mode'] == 'seq' and not any(o[0] == 'defrag' for o in c['ops']) and \
                any(o[0] == 'defrag' for o in sc['ops']):
            pass
        yield c
    if sc['mode'] == 'conc':
        for p in range(len(sc['procs'])):
            if len(sc['procs']) > 2 or not sc['procs'][p]:
                pass
            for i in range(len(sc['procs'][p])):
                c = copy.deepcopy(sc)
                del c['procs'][p][i]
                yield c
        for p in range(len(sc['procs'])):
            sub = {'ops': sc['procs'][p]}
            for c2 in M.shrink_ops(sub):
                c = copy.deepcopy(sc)
                c['procs'][p] = c2['ops']
                yield c
        if len(sc['procs']) > 2:
            for p in range(len(sc['procs'])):
                c = copy.deepcopy(sc)
                del c['procs'][p]
                yield c
    if sc['bufsize'] != 8192:
        c = copy.deepcopy(sc)
        c['bufsize'] = 8192
        yield c


def _bundle_sizes(tree):
    return dict((p, len(v)) for p, v in tree.items() if isinstance(v, (bytes, bytearray)) and
                (p.endswith('.bundle') or p.endswith('.bundlx')) and 'tmp_defrag' not in p)


def run(sc, tape):
    if sc.get('kind') == 'huge':
        return _run_huge(sc, tape)
    if sc.get('kind') == 'rows':
        return _run_rows(sc, tape)
    # the cache may live in a directory whose name contains the bundle extension (e.g. /data/esri.bundles/osm)
    _CDIR[0] = sc.get('cache_dir') or C.CACHE_DIR
    version = sc['version']
    name = 'compact-v%d' % version
    b = {'type': 'compact', 'version': version}
    probes = {}
    if sc['mode'] == 'seq':
        return _run_seq(sc, tape, b, name, probes)
    return _run_conc(sc, tape, b, name, probes)


def _validate(w, version, what):
    tree = w.fs.tree(copy=False)
    try:
        return BP.validate_tree(tree, version, _CDIR[0][len('/simfs'):]), tree
    except BP.Invalid as ex:
        raise M.Mismatch('invalid-structure', '%s: %s' % (what, ex))


def _defrag(w, runner_cache, version, pool, model_get, op, what, probes):
    from mapproxy.script.defrag import defrag_compact_cache
    before_tree = w.fs.tree()
    before_sizes = _bundle_sizes(before_tree)
    before = {}
    for c in pool:
        t = C.make_tile(c)
        runner_cache.load_tile(t)
        before[tuple(c)] = C.read_tile_bytes(t) if t.source is not None else None
    if len(op) > 3 and op[3]:
        # dry run: reports only, not a byte may change
        defrag_compact_cache(runner_cache, min_percent=op[1], min_bytes=op[2], dry_run=True)
        after_tree = w.fs.tree()
        if after_tree != before_tree:
            changed = sorted(k for k in set(before_tree) | set(after_tree) if before_tree.get(k) != after_tree.get(k))
            raise M.Mismatch('dry-run-changed-files', '%s: a dry run changed %s' % (what, changed[:4]))
        probes['defrag_dry_runs'] = probes.get('defrag_dry_runs', 0) + 1
        return
    aborted = False
    if len(op) > 4 and op[4] is not None:
        # one open() of a bundle for reading fails during the defragmentation (too many open files, stale network handle):
        # the run may abort, it must not lose a tile
        st = {'n': 0, 'fired': False}
        prev_hook = w.fs.fault_hook

        def hook(fsop, key, proc):
            if fsop == 'open' and str(key).endswith('.bundle') and not st['fired']:
                st['n'] += 1
                if st['n'] - 1 == op[4]:
                    st['fired'] = True
                    import errno
                    e = OSError(errno.ENFILE, os.strerror(errno.ENFILE), str(key))
                    e.injected = True
                    raise e
            return None
        w.fs.fault_hook = hook
        try:
            defrag_compact_cache(runner_cache, min_percent=op[1], min_bytes=op[2])
        except OSError as ex:
            if not getattr(ex, 'injected', False):
                raise
            aborted = True
            ex = None
            import gc
            gc.collect()
        finally:
            w.fs.fault_hook = prev_hook
        if st['fired']:
            probes['defrag_open_errors'] = probes.get('defrag_open_errors', 0) + 1
    else:
        defrag_compact_cache(runner_cache, min_percent=op[1], min_bytes=op[2])
    if aborted:
        # leftovers of the aborted run (tmp_defrag.*) are not bundles of the cache
        tree = w.fs.tree()
        for pth in list(tree):
            if 'tmp_defrag' in pth:
                w.fs.unlink('/simfs' + pth)
    n, tree = _validate(w, version, what + ' (after defrag)')
    after_sizes = _bundle_sizes(tree)
    shrunk = 0
    for p, sz in after_sizes.items():
        if sz > before_sizes.get(p, 0):
            raise M.Mismatch('defrag-grew', '%s: %s grew from %d to %d bytes' % (what, p, before_sizes.get(p, 0), sz))
        if sz < before_sizes.get(p, 0):
            shrunk += 1
    for p in before_sizes:
        if p not in after_sizes:
            shrunk += 1
    if shrunk:
        probes['defrag_rewrote_files'] = probes.get('defrag_rewrote_files', 0) + shrunk
    probes['defrag_runs'] = probes.get('defrag_runs', 0) + 1
    from mapproxy.cache.compact import CompactCacheV1, CompactCacheV2
    fresh = (CompactCacheV1 if version == 1 else CompactCacheV2)(_CDIR[0])
    for c in pool:
        t = C.make_tile(c)
        fresh.load_tile(t)
        got = C.read_tile_bytes(t) if t.source is not None else None
        if got != before[tuple(c)]:
            raise M.Mismatch('defrag-changed', '%s: address %s returned %s before defragmentation and %s after' % (
                what, tuple(c), C.describe(before[tuple(c)]), C.describe(got)))
        ind = BP.read_tree(tree, version, c, _CDIR[0][len('/simfs'):])
        if ind != got:
            raise M.Mismatch('parser-disagrees', '%s: address %s: cache API returns %s, independent reader %s' % (
                what, tuple(c), C.describe(got), C.describe(ind)))
    left = [p for p in tree if 'tmp_defrag' in p]
    if left:
        probes['defrag_leftover_tmp'] = probes.get('defrag_leftover_tmp', 0) + 1


def _injected(name, key):
    import errno
    code = getattr(errno, name)
    e = OSError(code, os.strerror(code), str(key))
    e.injected = True
    return e


def _run_seq(sc, tape, b, name, probes):
    faults = {}
    version = sc['version']
    w = World(tape, with_sched=False)
    v = None
    with w:
        w.fs.buffer_size = sc['bufsize']

        def after(runner):
            n, tree = _validate(w, version, 'after a mutation')
            # cross-check the API against the independent reader for every pool address
            for c in sc['pool']:
                ind = BP.read_tree(tree, version, c, _CDIR[0][len('/simfs'):])
                exp = runner.model.get(M.akey(c, None))
                fk = runner.failed_keys
                if fk is not None and M.akey(c, None) in fk and (ind is None or ind in fk[M.akey(c, None)]):
                    continue        # address of the call that met the injected I/O error: old, new or missing
                if ind != exp:
                    raise M.Mismatch('parser-disagrees', 'address %s: independent reader finds %s, model says %s' % (
                        tuple(c), C.describe(ind), C.describe(exp)))
        runner = M.Runner(b, lambda: C.make_cache(b, _CDIR[0]), sc['pool'], [None], after_mutation=after)
        runner.clock = w.clock
        fault = sc.get('fault')
        fstate = {'n': 0, 'fired': False, 'call': None}

        def hook(op, key, proc):
            # one store/remove of the history fails with an I/O error at a seeded file-system operation; a sticky fault
            # (disk full) also fails every later write of the same call, including the flush that close() retries
            if fstate['fired'] and fault.get('sticky') and runner.in_mutation and runner.call_seq == fstate['call'] and op == 'write':
                faults['io_error_repeated'] = faults.get('io_error_repeated', 0) + 1
                raise _injected(fault['errno'], key)
            if not runner.in_mutation or fstate['fired'] or op not in ('write', 'rename', 'open', 'mkdir', 'unlink', 'ftruncate'):
                return None
            fstate['n'] += 1
            if fstate['n'] - 1 == fault['at']:
                fstate['fired'] = True
                fstate['call'] = runner.call_seq
                runner.fault_in_call = True
                faults['io_error_' + fault['errno']] = faults.get('io_error_' + fault['errno'], 0) + 1
                raise _injected(fault['errno'], key)
            return None
        if fault:
            w.fs.fault_hook = hook
        try:
            for i, op in enumerate(sc['ops']):
                w.clock.now += 0.25
                if fstate['fired'] and not fstate.get('validated'):
                    # the call that met the I/O error has returned: whatever it left behind must still be a valid bundle
                    fstate['validated'] = True
                    _validate(w, version, 'after a store/remove that failed with %s' % fault['errno'])
                if op[0] == 'defrag':
                    _defrag(w, runner.cache, version, sc['pool'], None, op, 'op#%d defrag(min_percent=%s, min_bytes=%s)' % (
                        i, op[1], op[2]), probes)
                    runner.cache = runner.make()
                    runner.sweep('op#%d after defrag' % i)
                else:
                    runner.apply(op, i)
            if fstate['fired'] and not fstate.get('validated'):
                _validate(w, version, 'after a store/remove that failed with %s' % fault['errno'])
        except M.Mismatch as m:
            v = {'sig': 'C19:%s:%s%s' % (m.kind, name, ':after-io-fault' if fstate['fired'] else ''), 'msg': m.msg}
        except Exception as ex:
            import traceback
            if 'mapproxy' in ' '.join(f.filename for f in traceback.extract_tb(ex.__traceback__)[-3:]):
                v = {'sig': 'C19:raises:%s:%s' % (type(ex).__name__, name),
                     'msg': '%r\n%s' % (ex, ''.join(traceback.format_tb(ex.__traceback__)[-3:]))}
            else:
                raise
    frag = runner.overwrites + runner.removes_of_present
    probes['fragmenting_ops'] = frag
    return {'violation': v, 'digest': C.digest_of('seq', sc['version'], sc['ops']),
            'nontrivial': frag > 0, 'steps': len(sc['ops']), 'sim_time': 0.25 * len(sc['ops']),
            'faults': faults, 'probes': probes,
            'sample': {'mode': 'seq', 'backend': name, 'ops': [M._opstr(o) if o[0] != 'defrag' else 'defrag %s %s' % (o[1], o[2])
                                                               for o in sc['ops'][:14]]}}


def _run_conc(sc, tape, b, name, probes):
    version = sc['version']
    w = World(tape, policy=tuple(sc['policy']), step_cap=200000, eager_time=bool(sc.get('eager')))
    sched = w.sched
    viol = []
    stored = {}          # coord -> set of every value any process stores there (incl. None for removes)
    final_by_proc = []   # per process: {coord: last value}
    for ops in sc['procs']:
        last = {}
        for op in ops:
            if op[0] == 'store':
                last[tuple(op[1])] = C.payload(op[3])
                stored.setdefault(tuple(op[1]), set()).add(C.payload(op[3]))
            elif op[0] == 'store_many':
                for c, p in op[2]:
                    last[tuple(c)] = C.payload(p)
                    stored.setdefault(tuple(c), set()).add(C.payload(p))
            elif op[0] == 'remove':
                last[tuple(op[1])] = None
            elif op[0] == 'remove_many':
                for c in op[2]:
                    last[tuple(c)] = None
        final_by_proc.append(last)
    in_bundle = {}       # bundle base -> set of procs currently inside a mutating call on it
    overlap = [0]

    shared_cache = []       # threads of one server process share one cache object (sc['threads'])

    def proc_fn(pi, ops):
        def fn():
            if sc.get('threads'):
                if not shared_cache:
                    shared_cache.append(C.make_cache(b, _CDIR[0]))
                cache = shared_cache[0]
            elif sc.get('alias') and pi % 2 == 1:
                cache = C.make_cache(b, '/simfs/alias/' + os.path.basename(_CDIR[0]))
            else:
                cache = C.make_cache(b, _CDIR[0])
            for i, op in enumerate(ops):
                what = 'process %d op#%d %s' % (pi, i, M._opstr(op))
                try:
                    if op[0] == 'store':
                        bb = BP.bundle_base(op[1])
                        _enter(bb, pi)
                        cache.store_tile(C.make_tile(op[1], C.payload(op[3])))
                        _leave(bb, pi)
                    elif op[0] == 'store_many':
                        bbs = set(BP.bundle_base(c) for c, p in op[2])
                        for bb in bbs:
                            _enter(bb, pi)
                        cache.store_tiles([C.make_tile(c, C.payload(p)) for c, p in op[2]])
                        for bb in bbs:
                            _leave(bb, pi)
                    elif op[0] == 'remove':
                        bb = BP.bundle_base(op[1])
                        _enter(bb, pi)
                        cache.remove_tile(C.make_tile(op[1]))
                        _leave(bb, pi)
                    elif op[0] == 'remove_many':
                        bbs = set(BP.bundle_base(c) for c in op[2])
                        for bb in bbs:
                            _enter(bb, pi)
                        cache.remove_tiles([C.make_tile(c) for c in op[2]])
                        for bb in bbs:
                            _leave(bb, pi)
                    elif op[0] in ('load', 'is_cached', 'load_meta'):
                        t = C.make_tile(op[1])
                        if op[0] == 'load_meta':
                            cache.load_tile(t, with_metadata=True)
                            _check_read(what, op[1], t)
                        elif op[0] == 'load':
                            cache.load_tile(t)
                            _check_read(what, op[1], t)
                        else:
                            cache.is_cached(t)
                    elif op[0] == 'load_many':
                        tiles = [C.make_tile(c) for c in op[2]]
                        cache.load_tiles(tiles)
                        for c, t in zip(op[2], tiles):
                            _check_read(what, c, t)
                except (AssertionError,):
                    raise
                except Exception as ex:
                    from simkit.sched import SimAbort, SimCrash
                    from mapproxy.util.lock import LockTimeout
                    if isinstance(ex, (SimAbort, SimCrash)):
                        raise
                    if jumped[0] and isinstance(ex, LockTimeout):
                        # by the stepped clock the writer has waited longer than its time-out: the operation did not happen
                        # (or only part of it) - its addresses may hold any value stored so far
                        for bb_ in list(in_bundle):
                            in_bundle[bb_].discard(pi)
                        for c_ in ([op[1]] if op[0] in ('store', 'remove') else
                                   [x[0] for x in op[2]] if op[0] == 'store_many' else list(op[2]) if op[0] == 'remove_many' else []):
                            unsure.add(tuple(c_))
                        probes['lock_timeouts_after_clock_step'] = probes.get('lock_timeouts_after_clock_step', 0) + 1
                        continue
                    import traceback
                    viol.append(('raises:' + type(ex).__name__, '%s raised %r\n%s' % (
                        what, ex, ''.join(traceback.format_tb(ex.__traceback__)[-3:]))))
                    sched.abort('violation')
        return fn

    jumped = [False]
    unsure = set()

    def _enter(bb, pi):
        s = in_bundle.setdefault(bb, set())
        if s:
            overlap[0] += 1
        s.add(pi)

    def _leave(bb, pi):
        in_bundle[bb].discard(pi)

    def _check_read(what, coord, t):
        sched.check_alive()
        got = C.read_tile_bytes(t) if t.source is not None else None
        if got is not None and got not in stored.get(tuple(coord), ()):
            viol.append(('foreign-read', '%s: read %s from %s which nobody ever stored there' % (
                what, C.describe(got), tuple(coord))))
            sched.abort('violation')

    v = None
    with w:
        w.fs.buffer_size = sc['bufsize']
        server = w.new_proc('server') if sc.get('threads') else None
        if sc.get('alias'):
            if not os.path.isdir(os.path.dirname(_CDIR[0])):
                os.makedirs(os.path.dirname(_CDIR[0]))
            os.symlink(os.path.dirname(_CDIR[0]), '/simfs/alias')
            probes['writers_under_two_path_spellings'] = 1
        if sc.get('linepreempt'):
            sched.enable_line_preemption(['mapproxy/cache/compact.py'], sc['linepreempt'])
        if sc.get('clock_jump'):
            def on_yield(task, kind, key):
                if not jumped[0] and sched.steps >= sc['clock_jump']['at']:
                    jumped[0] = True
                    w.clock.now += sc['clock_jump']['by']
                    probes['clock_stepped_forward'] = 1
            sched.on_yield = on_yield
        for pi, ops in enumerate(sc['procs']):
            sched.spawn(proc_fn(pi, ops), 'w%d' % pi, server or w.new_proc('p%d' % pi))
        outcome = w.run_tasks()
        for t in sched.tasks:
            if t.exc is not None:
                raise t.exc
        if viol:
            v = {'sig': 'C19:concurrent-%s:%s' % (viol[0][0], name), 'msg': viol[0][1]}
        elif outcome != 'done':
            v = {'sig': 'C19:concurrent-hang:%s' % name, 'msg': 'writers did not terminate: %s %r' % (outcome, sched.stuck_info)}
        else:
            # quiescence: structure, contents
            w.fs.sched = None
            try:
                n, tree = _validate(w, version, 'at quiescence after concurrent writers')
                cache = C.make_cache(b, _CDIR[0])
                for c in sc['pool']:
                    t = C.make_tile(c)
                    cache.load_tile(t)
                    got = C.read_tile_bytes(t) if t.source is not None else None
                    allowed = set()
                    touched = False
                    for last in final_by_proc:
                        if tuple(c) in last:
                            allowed.add(last[tuple(c)])
                            touched = True
                    if not touched:
                        allowed.add(None)
                    if tuple(c) in unsure:
                        allowed.add(None)
                        allowed.update(stored.get(tuple(c), ()))
                    if got not in allowed:
                        kind = 'lost' if got is None else 'wrong-bytes'
                        raise M.Mismatch('concurrent-' + kind, 'at quiescence address %s returns %s; the last store of '
                                         'each writing process was %s' % (tuple(c), C.describe(got),
                                                                          sorted(str(C.describe(a)) for a in allowed)))
                    ind = BP.read_tree(tree, version, c, _CDIR[0][len('/simfs'):])
                    if ind != got:
                        raise M.Mismatch('parser-disagrees', 'address %s: cache API returns %s, independent reader %s' % (
                            tuple(c), C.describe(got), C.describe(ind)))
                for i, op in enumerate(sc['ops']):
                    if op[0] == 'defrag':
                        _defrag(w, cache, version, sc['pool'], None, op, 'defrag after concurrent writers', probes)
            except M.Mismatch as m:
                v = {'sig': 'C19:%s:%s' % (m.kind, name), 'msg': m.msg}
            except Exception as ex:
                import traceback
                if 'mapproxy' in ' '.join(f.filename for f in traceback.extract_tb(ex.__traceback__)[-3:]):
                    v = {'sig': 'C19:raises:%s:%s' % (type(ex).__name__, name),
                         'msg': 'after concurrent writers: %r\n%s' % (ex, ''.join(traceback.format_tb(ex.__traceback__)[-3:]))}
                else:
                    raise
    probes['overlapping_bundle_writers'] = overlap[0]
    if sched.line_yields:
        probes['thread_switches_between_statements'] = sched.line_yields
    probes.update(w.fs.probes)
    return {'violation': v, 'digest': C.digest_of('conc', sc['version'], sc['procs'], sched.log),
            'nontrivial': overlap[0] > 0, 'steps': sched.steps, 'sim_time': w.clock.now - 1.7e9,
            'faults': {}, 'probes': probes,
            'sample': {'mode': 'conc', 'backend': name,
                       'procs': [[M._opstr(o) for o in ops] for ops in sc['procs']],
                       'log_tail': [list(map(str, x)) for x in sched.log[-20:]]}}


if __name__ == '__main__':
    import checks.c19 as me
    from simkit import driver
    driver.main(me)
