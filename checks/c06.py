"""C06 - a crash while storing never leaves a corrupt or foreign tile visible.

One history = prior cache contents + one victim store, executed once by the real code on
SimFS while every mutating raw file-system operation is journalled.  Every crash point is
then reconstructed (snapshot + journal prefix, optionally with the last write torn at a
page boundary) and read back through a fresh cache object.
"""
import copy
import os
import pickle
import sys

sys.path.insert(0, os.path.dirname(os.path.dirname(os.path.abspath(__file__))))

from simkit.tape import Tape  # noqa: E402
from simkit.world import World, SimClock  # noqa: E402
from simkit.fs import SimFS  # noqa: E402
from checks import common as C  # noqa: E402

PROP = 'C06'
LEVEL = 'fault_enumeration'
VERSION = 1
BUDGET = {'quick': 45, 'thorough': 600}
CHUNK = {'quick': 20, 'thorough': 20}
RULE = ('one case = one crash state: (seeded history of 0-10 prior store/overwrite/remove operations + one victim '
        'store on one backend) x (journal prefix length i, optional tear of the last write at a 4096-aligned file '
        'offset); thorough tier enumerates ALL prefixes and ALL page-aligned tears of each sampled history, quick '
        'tier a seeded sample of <= 10 per history; non-trivial = crash lands strictly inside the victim (0 < i < n) '
        'or tears a write; distinct = distinct hash of the reconstructed post-crash file tree')
COMPONENTS = {
    'real': ['mapproxy.util.fs.write_atomic/ensure_directory', 'mapproxy.cache.file.FileCache',
             'mapproxy.cache.compact (BundleV1/V2, index, data)', 'mapproxy.cache.legend.LegendCache',
             'mapproxy.seed.util.ProgressStore', 'mapproxy.util.lock.FileLock (bundle lock)',
             'CPython io.Buffered*/TextIOWrapper (decides raw write order)', 'PIL (single colour detection)'],
    'stub': ['kernel file system (SimFS journal + crash reconstruction)', 'clock'],
}
ASSUMPTIONS = [
    'process death (SIGKILL/OOM), not power loss: completed system calls are durable and ordered (mapproxy never fsyncs)',
    'a killed write() leaves a page-granular (4096-aligned) prefix; sub-page writes are atomic w.r.t. process death',
    'rename/link/unlink/symlink are atomic',
]

COORDS = [[0, 0, 0], [0, 0, 1], [1, 0, 1], [1, 1, 1], [5, 7, 3], [127, 127, 7], [128, 127, 8], [3, 4, 2], [4, 3, 2]]
COLORS = [[255, 0, 0], [0, 0, 255]]
_tok = [0]


def _payload_spec(t, link):
    if link and t.chance(0.4):
        return {'color': t.pick(COLORS)}
    _tok[0] += 1
    size = t.weighted([(0, 4), (300, 2), (3000, 2), (5000, 2), (9000, 2), (20000, 1)])
    if size:
        size += t.randint(0, 900)
    return {'tok': t.choice(1 << 20), 'size': size}


def gen(t, tier):
    typ = t.weighted([('file', 4), ('compact', 4), ('legend', 1), ('progress', 1)])
    sc = {'bufsize': t.pick([4096, 8192, 8192, 65536]), 'prior': [], 'sample': None if tier == 'thorough' else 10}
    if typ == 'file':
        link = t.pick([None, None, 'symlink', 'hardlink'])
        sc['backend'] = {'type': 'file', 'layout': t.pick(['tc', 'mp', 'tms', 'reverse_tms', 'quadkey', 'arcgis']),
                         'link': link, 'perm': t.pick([None, None, '644'])}
    elif typ == 'compact':
        link = None
        sc['backend'] = {'type': 'compact', 'version': t.pick([1, 2]), 'perm': t.pick([None, None, '644'])}
    else:
        link = None
        sc['backend'] = {'type': typ}
        if typ == 'legend':
            sc['backend']['perm'] = t.pick([None, '644', '664'])      # globals.cache.file_permissions
    if typ in ('file', 'compact'):
        pool = [t.pick(COORDS) for _ in range(t.randint(2, 5))]
        for _ in range(t.randint(0, 8)):
            k = t.weighted([('store', 5), ('many', 2), ('remove', 1)])
            if k == 'store':
                sc['prior'].append(['store', [[t.pick(pool), _payload_spec(t, link)]]])
            elif k == 'many':
                sc['prior'].append(['store', [[c, _payload_spec(t, link)] for c in _distinct(t, pool, t.randint(2, 4))]])
            else:
                sc['prior'].append(['remove', t.pick(pool)])
        n = t.weighted([(1, 3), (2, 1), (3, 1), (5, 1)])
        sc['victim'] = ['store', [[c, _payload_spec(t, link)] for c in _distinct(t, pool, n)]]
        sc['pool'] = _uniq(pool)
        # the tiles of the victim store come as image files (what a cache used as the source of this cache hands over), not
        # as images in memory
        sc['filesrc'] = bool(t.chance(0.25))
    elif typ == 'legend':
        ids = ['http://a/?l1', 'http://a/?l2']
        for _ in range(t.randint(0, 3)):
            sc['prior'].append(['store', [[[t.pick(ids), t.pick([None, 1000])], _payload_spec(t, None)]]])
        sc['victim'] = ['store', [[[t.pick(ids), t.pick([None, 1000])], _payload_spec(t, None)]]]
        sc['pool'] = [[i, s] for i in ids for s in (None, 1000)]
    else:
        for _ in range(t.randint(0, 2)):
            sc['prior'].append(['store', [[None, {'tok': t.choice(1 << 20), 'size': t.pick([0, 5000, 20000])}]]])
        sc['victim'] = ['store', [[None, {'tok': t.choice(1 << 20), 'size': t.pick([0, 5000, 20000])}]]]
        sc['pool'] = [None]
    return sc


def _uniq(seq):
    out = []
    for x in seq:
        if x not in out:
            out.append(x)
    return out


def _distinct(t, pool, n):
    u = _uniq(pool)
    out = []
    while u and len(out) < n:
        out.append(u.pop(t.choice(len(u))))
    return out


def shrink(sc):
    for i in range(len(sc['prior'])):
        c = copy.deepcopy(sc)
        del c['prior'][i]
        yield c
    if len(sc['victim'][1]) > 1:
        for i in range(len(sc['victim'][1])):
            c = copy.deepcopy(sc)
            del c['victim'][1][i]
            yield c
    for i, op in enumerate(sc['prior']):
        if op[0] == 'store' and len(op[1]) > 1:
            for j in range(len(op[1])):
                c = copy.deepcopy(sc)
                del c['prior'][i][1][j]
                yield c
    for where in ('prior', 'victim'):
        ops = sc[where] if where == 'prior' else [sc['victim']]
        for i, op in enumerate(ops):
            if op[0] != 'store':
                continue
            for j, (coord, spec) in enumerate(op[1]):
                if spec.get('size'):
                    c = copy.deepcopy(sc)
                    tgt = c['prior'][i] if where == 'prior' else c['victim']
                    tgt[1][j][1]['size'] = 0
                    yield c
    if sc['bufsize'] != 8192:
        c = copy.deepcopy(sc)
        c['bufsize'] = 8192
        yield c
    if sc['backend'].get('perm'):
        c = copy.deepcopy(sc)
        c['backend']['perm'] = None
        yield c


# ----------------------------------------------------------------------
class Store(object):
    """uniform store/load/remove over the four kinds of storing code"""

    def __init__(self, b):
        self.b = b
        self.typ = b['type']
        if self.typ in ('file', 'compact'):
            self.cache = C.make_cache(b)
        elif self.typ == 'legend':
            from mapproxy.cache.legend import LegendCache
            self.cache = LegendCache(C.CACHE_DIR + '/legends', 'png', file_permissions=b.get('perm'))

    def store(self, items, filesrc=None):
        if self.typ in ('file', 'compact'):
            tiles = [C.make_tile(c, C.payload(s)) for c, s in items]
            if filesrc:
                from mapproxy.image import ImageSource
                for i, t_ in enumerate(tiles):
                    t_.source = ImageSource('%s/%d.png' % (filesrc, i))
            if len(tiles) == 1:
                self.cache.store_tile(tiles[0])
            else:
                self.cache.store_tiles(tiles)
        elif self.typ == 'legend':
            from mapproxy.cache.legend import Legend
            from mapproxy.image import ImageSource
            from io import BytesIO
            for (lid, scale), s in items:
                self.cache.store(Legend(source=ImageSource(BytesIO(C.payload(s))), id=lid, scale=scale))
        else:
            from mapproxy.seed.util import ProgressStore
            for _, s in items:
                ps = ProgressStore(C.CACHE_DIR + '/progress.pickle', continue_seed=False)
                ps.status = _progress_value(s)
                ps.write()

    def remove(self, coord):
        self.cache.remove_tile(C.make_tile(coord))

    def load(self, key):
        """returns bytes or None (missing)"""
        if self.typ in ('file', 'compact'):
            t = C.make_tile(key)
            if not self.cache.load_tile(t):
                return None
            return C.read_tile_bytes(t)
        if self.typ == 'legend':
            from mapproxy.cache.legend import Legend
            lg = Legend(id=key[0], scale=key[1])
            if not self.cache.load(lg):
                return None
            buf = lg.source.as_buffer()
            data = buf.read()
            lg.source.close_buffers()
            return data
        from mapproxy.seed.util import ProgressStore
        ps = ProgressStore(C.CACHE_DIR + '/progress.pickle', continue_seed=True)
        if not os.path.exists(C.CACHE_DIR + '/progress.pickle'):
            return None
        return pickle.dumps(ps.status)


def _progress_value(spec):
    return {'task-%d' % spec['tok']: [(i, 4) for i in range(3)], 'pad': 'x' * spec.get('size', 0)}


def _value(typ, spec):
    if typ == 'progress':
        return pickle.dumps(_progress_value(spec))
    return C.payload(spec)


def _key(k):
    return repr(k)


def run(sc, tape):
    b = sc['backend']
    typ = b['type']
    link = b.get('link')
    clock = SimClock()
    w = World(tape, with_sched=False, clock=clock)
    model = {}       # key -> (bytes, spec)
    history = {}     # key -> set of every value ever stored there
    with w:
        w.fs.buffer_size = sc['bufsize']
        if typ == 'progress':
            w.fs.mkdir(C.CACHE_DIR)
        st = Store(b)
        for op in sc['prior']:
            clock.now += 0.5
            if op[0] == 'store':
                st.store(op[1])
                for k, s in op[1]:
                    model[_key(k)] = (_value(typ, s), s)
                    history.setdefault(_key(k), set()).add(_value(typ, s))
            else:
                st.remove(op[1])
                model.pop(_key(op[1]), None)
        # sanity of the fault-free path (this is C05 territory, but a broken baseline would poison the oracle)
        for k in sc['pool']:
            got = Store(b).load(k)
            exp = model.get(_key(k), (None,))[0]
            if got != exp:
                return _result(sc, {'sig': 'C06:baseline-mismatch:%s' % C.backend_name(b),
                                    'msg': 'before any crash: %r holds %s, expected %s' % (
                                        k, C.describe(got), C.describe(exp))}, [], 0, 0, {})
        filesrc = None
        if sc.get('filesrc') and typ in ('file', 'compact'):
            filesrc = '/simfs/src'
            os.makedirs(filesrc)
            for i, (k, s) in enumerate(sc['victim'][1]):
                with open('%s/%d.png' % (filesrc, i), 'wb') as f:
                    f.write(C.payload(s))
        snap = w.fs.snapshot()
        clock.now += 0.5
        w.fs.start_journal()
        st = Store(b)
        st.store(sc['victim'][1], filesrc)
        journal = w.fs.stop_journal()

    victim = dict((_key(k), (_value(typ, s), s)) for k, s in sc['victim'][1])
    # crash points
    points = []
    n = len(journal)
    for i in range(n + 1):
        points.append((i, None))
        if i < n and journal[i][0] == 'write':
            off, ln = journal[i][2], len(journal[i][3])
            first = (off // 4096 + 1) * 4096
            for cut in range(first, off + ln, 4096):
                points.append((i, cut - off))
    total_points = len(points)
    if sc.get('sample') and len(points) > sc['sample']:
        chosen = []
        pts = list(points)
        for _ in range(sc['sample']):
            chosen.append(pts.pop(tape.choice(len(pts))))
        points = sorted(chosen, key=lambda p: (p[0], -1 if p[1] is None else p[1]))

    faults = {}
    states = set()
    ntstates = set()
    nontrivial = 0
    violation = None
    trace = []
    for i, torn in points:
        fs2 = SimFS.from_snapshot(snap)
        for rec in journal[:i]:
            fs2.apply(rec)
        if torn is not None:
            fs2.apply(journal[i], torn=torn)
            faults['torn_write'] = faults.get('torn_write', 0) + 1
        faults['process_kill'] = faults.get('process_kill', 0) + 1
        if 0 < i < n or torn is not None:
            nontrivial += 1
            faults['kill_inside_store'] = faults.get('kill_inside_store', 0) + 1
        sd = C.digest_of(sorted((k, v if not isinstance(v, bytes) else C.digest_of(v))
                                for k, v in fs2.tree().items()))
        states.add(sd)
        if 0 < i < n or torn is not None:
            ntstates.add(sd)
        v = _check_state(sc, b, typ, link, fs2, model, victim, history, i, torn, n, journal, cont=len(trace) + i)
        if len(trace) < 12:
            trace.append({'prefix': i, 'torn': torn, 'next_op': _rec_str(journal[i]) if i < n else 'END'})
        if v is not None:
            violation = v
            break
    res = _result(sc, violation, trace, len(points), nontrivial, faults)
    res['digest'] = C.digest_of(sorted(states), [(_rec_str(r)) for r in journal])
    res['dkeys'] = ntstates
    res['evals'] = len(points)
    res['journal_len'] = n
    res['total_points'] = total_points
    res['probes'] = {'journal_ops': n, 'crash_points_available': total_points, 'crash_points_checked': len(points)}
    res['nontrivial'] = nontrivial > 0
    res['sample'] = {'journal': [_rec_str(r) for r in journal][:40], 'crash_points': trace[:6]}
    return res


def _rec_str(r):
    if r[0] == 'write':
        return 'write ino%d @%d +%d' % (r[1], r[2], len(r[3]))
    return ' '.join(str(x) for x in r[:-1]) if r[0] in ('link', 'unlink', 'rename', 'trunc') else ' '.join(map(str, r[:4]))


def _result(sc, violation, trace, evaluated, nontrivial, faults):
    return {'violation': violation, 'digest': None, 'nontrivial': nontrivial > 0, 'steps': evaluated, 'sim_time': 0.0,
            'faults': faults, 'probes': {}, 'sample': None}


def _check_state(sc, b, typ, link, fs2, model, victim, history, i, torn, n, journal, cont=0):
    name = C.backend_name(b)
    where = 'crash after %d/%d fs ops%s (next: %s)' % (
        i, n, ' + %d bytes of the torn write' % torn if torn is not None else '',
        _rec_str(journal[i]) if i < n else 'END')
    w2 = World(Tape(values=[]), with_sched=False, fs=fs2)
    with w2:
        fs2.buffer_size = sc['bufsize']
        for k in sc['pool']:
            kk = _key(k)
            old = model.get(kk, (None, None))
            try:
                got = Store(b).load(k)
            except Exception as ex:
                return {'sig': 'C06:reader-raises:%s:%s' % (type(ex).__name__, name),
                        'msg': '%s: reading %r after restart raised %r' % (where, k, ex)}
            if kk in victim:
                new, spec = victim[kk]
                if got == new or got == old[0]:
                    continue
                if got is None:
                    if old[0] is None:
                        continue
                    if link and (C.is_single_color(spec) or C.is_single_color(old[1])):
                        continue        # a linked single-colour tile was being replaced
                    return {'sig': 'C06:lost-old-tile:%s' % name,
                            'msg': '%s: %r is missing although it held %s before the store' % (where, k, C.describe(old[0]))}
                kind = 'foreign' if any(got in vals for kk2, vals in history.items() if kk2 != kk) or \
                    any(got == v[0] for kk2, v in victim.items() if kk2 != kk) else 'corrupt'
                return {'sig': 'C06:%s-tile:%s' % (kind, name),
                        'msg': '%s: %r returns %s (%d bytes), neither the old (%s) nor the new (%s) content' % (
                            where, k, C.describe(got), len(got), C.describe(old[0]), C.describe(new))}
            else:
                if got != old[0]:
                    return {'sig': 'C06:bystander-changed:%s' % name,
                            'msg': '%s: %r was not being written but now returns %s instead of %s' % (
                                where, k, C.describe(got), C.describe(old[0]))}
        # continuation after restart: further stores on the post-crash state must behave like a map again -
        # the stored address reads back, every other address keeps what it returned right after the restart
        observed = {}
        for k in sc['pool']:
            observed[_key(k)] = Store(b).load(k)
        if typ == 'compact':
            from checks import bundleparse as BP
            try:
                BP.validate_tree(fs2.tree(copy=False), b['version'])
            except BP.Invalid as ex:
                return {'sig': 'C06:invalid-bundle-after-crash:%s' % name, 'msg': '%s: %s' % (where, ex)}
        def _repeat():
            # first the most natural continuation: the interrupted store is simply repeated (a resumed seed does that)
            try:
                Store(b).store(sc['victim'][1])
            except Exception as ex:
                return {'sig': 'C06:store-after-restart-raises:%s:%s' % (type(ex).__name__, name),
                        'msg': '%s: repeating the interrupted store after restart raised %r' % (where, ex)}
            for k in sc['pool']:
                kk = _key(k)
                try:
                    got = Store(b).load(k)
                except Exception as ex:
                    return {'sig': 'C06:reader-raises:%s:%s' % (type(ex).__name__, name),
                            'msg': '%s, then the store repeated: reading %r raised %r' % (where, k, ex)}
                if kk in victim:
                    if got != victim[kk][0]:
                        return {'sig': 'C06:repeated-store-not-readable:%s' % name,
                                'msg': '%s: the interrupted store was repeated after restart, but %r returns %s instead of the '
                                       'stored %s' % (where, k, C.describe(got), C.describe(victim[kk][0]))}
                    observed[kk] = got
                elif got != observed[kk]:
                    return {'sig': 'C06:store-after-restart-damages-other-tile:%s' % name,
                            'msg': '%s: repeating the interrupted store changed what %r returns: %s -> %s' % (
                                where, k, C.describe(observed[kk]), C.describe(got))}
            return None

        def _fresh():
            k0 = sc['victim'][1][0][0]
            targets = [k0]
            others = [k for k in sc['pool'] if _key(k) != _key(k0)]
            if others:
                targets.append(others[cont % len(others)])
            for n_follow, kf in enumerate(targets):
                fresh = {'tok': 999990 + n_follow, 'size': 100 + 2000 * n_follow} if typ != 'progress' else \
                    {'tok': 999990 + n_follow, 'size': 10}
                if link and n_follow == 0 and cont % 3 != 1:
                    # a linked single-colour tile of ANOTHER colour than the one the interrupted store was writing (left-overs
                    # of that store must not decide what this address shows)
                    vp_ = sc['victim'][1][0][1]
                    used = vp_.get('color') if isinstance(vp_, dict) else None
                    fresh = {'color': [c_ for c_ in ([0, 255, 0], [255, 0, 255]) if c_ != used][0]}
                try:
                    Store(b).store([[kf, fresh]])
                    got = Store(b).load(kf)
                except Exception as ex:
                    return {'sig': 'C06:store-after-restart-raises:%s:%s' % (type(ex).__name__, name),
                            'msg': '%s: storing %r again after restart raised %r' % (where, kf, ex)}
                if got != _value(typ, fresh):
                    return {'sig': 'C06:store-after-restart-lost:%s' % name,
                            'msg': '%s: a store to %r after restart does not read back (%s)' % (where, kf, C.describe(got))}
                observed[_key(kf)] = got
                for k in sc['pool']:
                    try:
                        got = Store(b).load(k)
                    except Exception as ex:
                        return {'sig': 'C06:reader-raises:%s:%s' % (type(ex).__name__, name),
                                'msg': '%s, then a store to %r: reading %r raised %r' % (where, kf, k, ex)}
                    if got != observed[_key(k)]:
                        return {'sig': 'C06:store-after-restart-damages-other-tile:%s' % name,
                                'msg': '%s: after restart a store to %r changed what %r returns: %s -> %s' % (
                                    where, kf, k, C.describe(observed[_key(k)]), C.describe(got))}
                if typ == 'compact':
                    try:
                        BP.validate_tree(fs2.tree(copy=False), b['version'])
                    except BP.Invalid as ex:
                        return {'sig': 'C06:invalid-bundle-after-restart-store:%s' % name, 'msg': '%s: %s' % (where, ex)}
            return None

        # the order of the two continuations alternates: repeating the interrupted store first can repair what a
        # later unrelated store would otherwise trip over, and the other way round
        for step in ((_repeat, _fresh) if cont % 2 == 0 else (_fresh, _repeat)):
            r = step()
            if r is not None:
                return r
        # ... and a remove of the victim address (tile caches only)
        k0 = sc['victim'][1][0][0]
        if typ in ('file', 'compact'):
            try:
                Store(b).remove(k0)
                got = Store(b).load(k0)
            except Exception as ex:
                return {'sig': 'C06:remove-after-restart-raises:%s:%s' % (type(ex).__name__, name),
                        'msg': '%s: removing %r after restart raised %r' % (where, k0, ex)}
            if got is not None:
                return {'sig': 'C06:remove-after-restart-ineffective:%s' % name,
                        'msg': '%s: %r still returns %s after it was removed' % (where, k0, C.describe(got))}
            for k in sc['pool']:
                if _key(k) == _key(k0):
                    continue
                got = Store(b).load(k)
                if got != observed[_key(k)]:
                    return {'sig': 'C06:store-after-restart-damages-other-tile:%s' % name,
                            'msg': '%s: after restart removing %r changed what %r returns: %s -> %s' % (
                                where, k0, k, C.describe(observed[_key(k)]), C.describe(got))}
    return None


def evidence_extra(total):
    return {}


if __name__ == '__main__':
    import checks.c06 as me
    from simkit import driver
    driver.main(me)
