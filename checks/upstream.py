"""Simulated upstream: a position-and-generation-encoding map source.

pixel value = f(ground x, ground y, fetch generation):  R = global pixel column & 255,
G = global pixel row (from the top of the grid) & 255, B = generation of the fetch.
Every fetch gets a unique generation so every byte served later is attributable to one fetch.
Expected tile images are computed by independent arithmetic (not via mapproxy.grid).
"""
H = 20037508.342789244      # half extent of the EPSG:3857 world grid
TS = 8                       # tile size in pixels used by the checks


def level_res(z, ts=TS):
    return 2 * H / (ts * (1 << z))


DIM_SHIFT = {None: 0, '2020': 64, '2021': 128}     # a request's dimension value (time=...) moves the G channel


def expected_rg(coord, ts=TS, shift=0):
    """list of rows, each a list of (r, g) for the tile (x, y, z), origin 'll'"""
    x, y, z = coord
    n = 1 << z
    rows = []
    for j in range(ts):
        gy = (n - 1 - y) * ts + j
        rows.append([((x * ts + i) & 255, (gy + shift) & 255) for i in range(ts)])
    return rows


OCEAN = (7, 7, 7)


def is_ocean(col, row_from_top):
    """every third diagonal of tiles is 'ocean': one constant colour whatever the fetch generation, so that
    single-colour linking (shared files) comes into play"""
    return (col + row_from_top) % 3 == 0


def is_ocean_tile(coord):
    x, y, z = coord
    return is_ocean(x, (1 << z) - 1 - y)


def render(bbox, size, gen, ts=TS, ocean=False, shift=0):
    """raw RGB bytes for a query"""
    w, h = size
    res = (bbox[2] - bbox[0]) / float(w)
    gx0 = int(round((bbox[0] + H) / res))
    gy0 = int(round((H - bbox[3]) / res))
    out = bytearray(w * h * 3)
    k = 0
    g = gen & 255
    for j in range(h):
        gyy = gy0 + j
        gy = (gyy + shift) & 255
        for i in range(w):
            if ocean and is_ocean((gx0 + i) // ts, gyy // ts):
                out[k], out[k + 1], out[k + 2] = ocean if isinstance(ocean, tuple) else OCEAN
            else:
                out[k] = (gx0 + i) & 255
                out[k + 1] = gy
                out[k + 2] = g
            k += 3
    return bytes(out)


def check_tile_image(img, coord, ts=TS, ocean=False, shift=0):
    """returns (ok, generation or None, message)"""
    img = img.convert('RGB')
    if img.size != (ts, ts):
        return False, None, 'size %r' % (img.size,)
    data = img.tobytes()
    if ocean and is_ocean_tile(coord):
        if data != bytes(OCEAN) * (ts * ts):
            return False, None, 'ocean tile is not the constant ocean colour'
        return True, None, ''
    exp = expected_rg(coord, ts, shift)
    gens = set()
    k = 0
    for j in range(ts):
        for i in range(ts):
            r, g, b = data[k], data[k + 1], data[k + 2]
            k += 3
            if (r, g) != exp[j][i]:
                return False, None, 'pixel (%d,%d) shows ground position (%d,%d), expected (%d,%d)' % (
                    i, j, r, g, exp[j][i][0], exp[j][i][1])
            gens.add(b)
    if len(gens) != 1:
        return False, None, 'pixels of one tile come from different fetch generations %r' % sorted(gens)
    return True, gens.pop(), ''


def covers(bbox, coord, ts=TS):
    x, y, z = coord
    size = 2 * H / (1 << z)
    minx = -H + x * size
    miny = -H + y * size
    eps = size * 1e-6
    return bbox[0] <= minx + eps and bbox[1] <= miny + eps and bbox[2] >= minx + size - eps and bbox[3] >= miny + size - eps


class UpstreamFailure(Exception):
    pass


class SimSource(object):
    """stub for a mapproxy source object at the TileManager seam (`sources=[...]`)"""
    res_range = None
    coverage = None
    extent = None

    def __init__(self, world, shared, supports_meta_tiles=True, image_opts=None):
        from mapproxy.image.opts import ImageOptions
        self.world = world
        self.shared = shared            # dict: log (list), gen (int), plan (callable)
        self.supports_meta_tiles = supports_meta_tiles
        self.image_opts = image_opts or ImageOptions(format='image/png')
        self.transparent = False

    def is_opaque(self, query):
        return False

    def combined_layer(self, other, query):
        return None

    def get_map(self, query):
        from PIL import Image
        from mapproxy.image import ImageSource
        from mapproxy.source import SourceError
        sh = self.shared
        sched = self.world.sched
        if sh.get('holes'):
            # the source has nothing for these tiles (they lie outside its coverage): tile-by-tile queries for them give no
            # image at all, such a tile can never be cached
            for hc in sh['holes']:
                if covers(query.bbox, tuple(hc)) and tuple(query.size) == (TS, TS):
                    from mapproxy.layer import BlankImage
                    sh.setdefault('blank_queries', []).append(tuple(hc))
                    if sched is not None:
                        sched.yield_point('upstream-blank', tuple(hc))
                    raise BlankImage()
        sh['gen'] += 1
        gen = sh['gen']
        me = sched._me() if sched is not None else None
        dim = (getattr(query, 'dimensions', None) or {}).get('time')
        entry = {'gen': gen, 'dim': dim, 'bbox': tuple(query.bbox), 'size': tuple(query.size), 'task': me.name if me else None,
                 'proc': me.proc.name if me else None, 't0': self.world.clock.now, 'ok': None,
                 'seq0': len(sched.log) if sched is not None else 0}
        sh['log'].append(entry)
        plan = sh['plan'](entry)        # {'latency': s, 'yields': n, 'fail': bool}
        if sched is not None:
            sched.yield_point('upstream-call', gen)
            for _ in range(plan.get('yields', 0)):
                sched.yield_point('upstream-wait', gen)
            if plan.get('latency'):
                import time
                time.sleep(plan['latency'])
        entry['t1'] = self.world.clock.now
        entry['seq1'] = len(sched.log) if sched is not None else 0
        if plan.get('fail'):
            entry['ok'] = False
            raise SourceError('simulated upstream failure (gen %d)' % gen)
        if sched is not None:
            sched.check_alive()
        entry['ok'] = True
        img = Image.frombytes('RGB', tuple(query.size), render(query.bbox, query.size, gen, ocean=bool(sh.get('ocean')), shift=DIM_SHIFT.get(dim, 0)))
        cacheable = True
        if sh.get('src_age'):
            # a source that knows how old its data is (as a cache used as the source of another cache does): the
            # timestamp travels with the image
            from mapproxy.cache.tile import CacheInfo
            cacheable = CacheInfo(cacheable=True, timestamp=self.world.clock.now - sh['src_age'])
        return ImageSource(img, size=tuple(query.size), image_opts=self.image_opts, cacheable=cacheable)
