"""C20 - conditional requests are honoured soundly.

Full stack: the MapProxy WSGI application built by the real configuration loader (TMS, KML,
WMTS REST + KVP, WMS-C), a file cache on SimFS or a per-level sqlite cache on tmpfs, the HTTP
client replaced by a simulated upstream (position/generation encoding, switchable HTTP 500), the
simulated clock.  Histories of GETs, conditional GETs, clock advances, rewrites through the real
expiry path, upstream failures mapped to uncached fill images.
"""
import copy
import os
import shutil
import sys
from io import BytesIO

sys.path.insert(0, os.path.dirname(os.path.dirname(os.path.abspath(__file__))))

from simkit.world import World, _REAL  # noqa: E402
from checks import common as C  # noqa: E402
from checks import upstream as U  # noqa: E402
from checks import fullstack as F  # noqa: E402

PROP = 'C20'
LEVEL = 'exploration'
VERSION = 1
BUDGET = {'quick': 50, 'thorough': 600}
CHUNK = {'quick': 10, 'thorough': 20}
RULE = ('one case = one seeded history (8-40 ops) of unconditional GETs, conditional GETs (If-None-Match: current / '
        'previous / garbage; If-Modified-Since: before / equal / after / malformed), clock advances, rewrites through the '
        'expiry path and upstream-500 periods, over 2-4 tile URLs of one service flavour (TMS, KML, WMTS REST, WMTS KVP, '
        'WMS-C) on one backend; non-trivial = at least one conditional request was judged against a cached tile or a fill '
        'image was served; distinct = distinct (deployment, ops) hash')
COMPONENTS = {
    'real': ['mapproxy.config.loader.ProxyConfiguration (app built from a config dict)', 'mapproxy.wsgiapp.MapProxyApp',
             'mapproxy.service.tile / wmts / kml / wms', 'mapproxy.response.Response (cache_headers, make_conditional)',
             'mapproxy.util.times', 'mapproxy.layer / cache.tile.TileManager', 'mapproxy.source.wms + client.wms + source.error',
             'mapproxy.cache.file.FileCache', 'mapproxy.cache.mbtiles.MBTilesLevelCache'],
    'stub': ['HTTP client transport (HTTPClient.open -> simulated upstream)', 'clock', 'file system for the file cache (SimFS)'],
    'outside_the_seams': ['sqlite file I/O on tmpfs'],
}
ASSUMPTIONS = [
    'the response that creates or rewrites a tile (an upstream fetch happened while it was served) is excluded from the '
    'validator-equality clause, as the statement starts "once a tile is in the cache"',
    'one conditional header per request; If-Modified-Since "matches" when its second is >= the Last-Modified second',
    'a tile is "rewritten" iff the fetch generation encoded in its pixels changes',
]
SERVICES = ['tms', 'kml', 'wmts', 'wmtskvp', 'wmsc']
_seq = [0]


def url_for(service, coord):
    x, y, z = coord
    n = 1 << z
    if service == 'tms':
        return '/tms/1.0.0/lay/EPSG3857/%d/%d/%d.png' % (z - 1, x, y), ''
    if service == 'kml':
        return '/kml/lay/EPSG3857/%d/%d/%d.png' % (z, x, y), ''
    if service == 'wmts':
        return '/wmts/lay/g/%02d/%d/%d.png' % (z, x, n - 1 - y), ''
    if service == 'wmtskvp':
        return '/service', ('service=WMTS&request=GetTile&version=1.0.0&layer=lay&style=&tilematrixset=g&tilematrix=%02d'
                            '&tilerow=%d&tilecol=%d&format=image/png' % (z, n - 1 - y, x))
    size = 2 * U.H / n
    return '/service', ('service=WMS&request=GetMap&version=1.1.1&layers=lay&styles=&srs=EPSG:3857&bbox=%r,%r,%r,%r'
                        '&width=%d&height=%d&format=image/png&tiled=true' % (
                            -U.H + x * size, -U.H + y * size, -U.H + (x + 1) * size, -U.H + (y + 1) * size, U.TS, U.TS))


def gen(t, tier):
    z = t.pick([1, 2, 3])
    n = 1 << z
    coords = []
    for _ in range(t.randint(2, 4)):
        c = [t.choice(n), t.choice(n), z]
        if c not in coords:
            coords.append(c)
    sc = {'service': t.pick(SERVICES), 'backend': t.weighted([('file', 3), ('sqlite', 2)]),
          'meta_size': t.pick([[1, 1], [1, 1], [2, 2]]), 'refresh': t.pick([None, 30, 30, 3600]),
          'fill': t.pick(['#ff0000', 'transparent']), 'coords': coords, 'ops': [], 'frac': t.pick([0.0, 0.4])}
    nops = t.randint(8, 20 if tier == 'quick' else 40)
    for _ in range(nops):
        k = t.weighted([('get', 5), ('cond', 8), ('adv', 3), ('rewrite', 2 if sc['refresh'] else 0), ('up500', 2)])
        u = t.choice(len(coords))
        if k == 'get':
            sc['ops'].append(['get', u])
        elif k == 'cond':
            if t.chance(0.55):
                sc['ops'].append(['cond', u, 'inm', t.pick(['current', 'current', 'previous', 'garbage', 'quoted'])])
            else:
                sc['ops'].append(['cond', u, 'ims', t.pick(['before', 'equal', 'after', 'after1', 'malformed'])])
        elif k == 'adv':
            sc['ops'].append(['adv', t.pick([0.5, 1, 2, 10, 'boundary', 4000, 90000])])
        elif k == 'rewrite':
            sc['ops'].append(['rewrite', u])
        else:
            sc['ops'].append(['up500', bool(t.choice(2))])
    return sc


def shrink(sc):
    n = len(sc['ops'])
    size = n // 2
    while size >= 1:
        for i in range(0, n, size):
            c = copy.deepcopy(sc)
            del c['ops'][i:i + size]
            yield c
        size //= 2
    if sc['meta_size'] != [1, 1]:
        c = copy.deepcopy(sc)
        c['meta_size'] = [1, 1]
        yield c
    if sc['frac']:
        c = copy.deepcopy(sc)
        c['frac'] = 0.0
        yield c


class Bad(Exception):
    def __init__(self, kind, msg):
        Exception.__init__(self, msg)
        self.kind = kind
        self.msg = msg


def _decode(body):
    """('tile', generation) | ('fill', colour) | ('other', None)"""
    from PIL import Image
    try:
        img = Image.open(BytesIO(body)).convert('RGBA')
    except Exception:
        return 'other', None
    px = img.tobytes()
    first = px[:4]
    if all(px[i:i + 4] == first for i in range(0, len(px), 4)):
        return 'fill', tuple(first)
    gens = set(px[i + 2] for i in range(0, len(px), 4))
    if len(gens) == 1:
        return 'tile', gens.pop()
    return 'other', None


def run(sc, tape):
    import mapproxy.client.http as H
    import mapproxy.util.times as times
    import datetime as real_dt
    import types
    from mapproxy.util.times import parse_httpdate, format_httpdate

    name = '%s:%s%s' % (sc['service'], sc['backend'], '-meta' if sc['meta_size'] != [1, 1] else '')
    w = World(tape, with_sched=False, start_time=1.7e9 + sc['frac'])
    clock = w.clock
    http = F.SimHTTP(w)
    w.extra_patches.append((H.HTTPClient, 'open', lambda self, url, data=None, method=None: http.open(self, url, data, method)))

    class SimDateTime(real_dt.datetime):
        @classmethod
        def now(cls, tz=None):
            return real_dt.datetime.fromtimestamp(clock.time())
    w.extra_patches.append((times, 'datetime', types.SimpleNamespace(datetime=SimDateTime, timedelta=real_dt.timedelta,
                                                                     date=real_dt.date)))
    realdir = None
    if sc['backend'] == 'file':
        cache_conf = {'type': 'file', 'directory_layout': 'tc'}
    else:
        _seq[0] += 1
        realdir = '/dev/shm/verif-c20-%d-%d' % (_REAL['os.getpid'](), _seq[0])
        os.makedirs(realdir)
        cache_conf = {'type': 'sqlite', 'directory': realdir}
    conf = F.base_conf(cache_conf, meta_size=sc['meta_size'],
                       refresh_before={'seconds': sc['refresh']} if sc['refresh'] else None,
                       on_error_color=sc['fill'])
    urls = [url_for(sc['service'], c) for c in sc['coords']]
    last = {}            # url index -> last non-creating 200 response (gen, etag, lm, body)
    prev_etag = {}       # url index -> an ETag of an older generation
    judged = [0]
    fills = [0]
    probes = {}
    v = None

    def get(u, headers=None):
        n0 = len(http.log)
        st, hd, body = F.wsgi_get(app, urls[u][0], urls[u][1], headers)
        calls = http.log[n0:]
        return st, hd, body, calls

    def observe(u, st, hd, body, calls, what):
        """checks on any unconditional 200 response; returns decoded kind"""
        if st != 200:
            raise Bad('unexpected-status', '%s: status %d, body %r' % (what, st, body[:200]))
        kind, val = _decode(body)
        cc = hd.get('cache-control', '')
        if kind == 'fill':
            fills[0] += 1
            if not any(e['ok'] is False for e in calls):
                raise Bad('fill-image-from-cache', '%s: a fill image was served although no upstream call failed during the '
                          'request - an uncacheable error image must have been stored' % what)
            if 'no-store' not in cc:
                raise Bad('fill-image-cacheable', '%s: uncached fill image sent with Cache-Control %r, ETag %r, Last-Modified %r '
                          'instead of no-store directives' % (what, cc, hd.get('etag'), hd.get('last-modified')))
            return kind, val
        if kind != 'tile':
            raise Bad('undecodable-body', '%s: body is not a tile image' % what)
        creating = bool(calls)
        if not creating:
            l = last.get(u)
            if l is not None and l['gen'] == val:
                if (l['etag'], l['lm'], l['body']) != (hd.get('etag'), hd.get('last-modified'), body):
                    raise Bad('validators-changed', '%s: the tile (generation %d) was not rewritten but validators/body '
                              'changed: ETag %r -> %r, Last-Modified %r -> %r, body equal: %s' % (
                                  what, val, l['etag'], hd.get('etag'), l['lm'], hd.get('last-modified'), l['body'] == body))
            if l is not None and l['gen'] != val and l['etag'] is not None:
                prev_etag[u] = l['etag']
            last[u] = {'gen': val, 'etag': hd.get('etag'), 'lm': hd.get('last-modified'), 'body': body}
        return kind, val

    try:
        with w:
            app, pc = F.make_app(conf)
            for i, op in enumerate(sc['ops']):
                what = 'op#%d %r on %s' % (i, op, urls[op[1]][0] + ('?' + urls[op[1]][1][:40] if urls[op[1]][1] else '')
                                            if op[0] in ('get', 'cond', 'rewrite') else '')
                k = op[0]
                if k == 'adv':
                    clock.now = float(int(clock.now) + 1) if op[1] == 'boundary' else clock.now + op[1]
                elif k == 'up500':
                    http.fail_code = 500 if op[1] else None
                elif k == 'get':
                    st, hd, body, calls = get(op[1])
                    observe(op[1], st, hd, body, calls, what)
                elif k == 'rewrite':
                    # through the real expiry path: let the tile age beyond refresh_before, then GET it
                    clock.now += sc['refresh'] + 2
                    st, hd, body, calls = get(op[1])
                    kind, val = observe(op[1], st, hd, body, calls, what)
                    if kind == 'tile' and not calls and op[1] in last and http.fail_code is None:
                        probes['rewrite_without_fetch'] = probes.get('rewrite_without_fetch', 0) + 1
                elif k == 'cond':
                    u = op[1]
                    # learn the current validators with an unconditional GET (twice if the first one created the tile)
                    cur = None
                    for _ in range(2):
                        st, hd, body, calls = get(u)
                        kind, val = observe(u, st, hd, body, calls, what + ' (probe)')
                        if kind == 'tile' and not calls:
                            cur = {'etag': hd.get('etag'), 'lm': hd.get('last-modified'), 'gen': val}
                            break
                        if kind == 'fill':
                            break
                    if cur is None:
                        continue
                    if cur['etag'] is None or cur['lm'] is None:
                        raise Bad('missing-validators', '%s: cached tile served without ETag/Last-Modified: %r' % (what, hd))
                    lm_ts = parse_httpdate(cur['lm'])
                    headers = {}
                    expect304 = None
                    if op[2] == 'inm':
                        if op[3] == 'current':
                            headers['If-None-Match'] = cur['etag']
                            expect304 = True
                        elif op[3] == 'previous':
                            if u not in prev_etag or prev_etag[u] == cur['etag']:
                                continue
                            headers['If-None-Match'] = prev_etag[u]
                            expect304 = False
                        elif op[3] == 'quoted':
                            headers['If-None-Match'] = '"x' + cur['etag'] + '"'
                            expect304 = False
                        else:
                            headers['If-None-Match'] = 'deadbeef' + cur['etag'][8:]
                            expect304 = False
                    else:
                        if op[3] == 'before':
                            headers['If-Modified-Since'] = format_httpdate(lm_ts - 5)
                            expect304 = False
                        elif op[3] == 'equal':
                            headers['If-Modified-Since'] = cur['lm']
                            expect304 = None        # implementation compares the un-truncated time: either is sound
                        elif op[3] == 'after':
                            headers['If-Modified-Since'] = format_httpdate(lm_ts + 3600)
                            expect304 = None        # 304 allowed (validator matches), not demanded by the statement
                        elif op[3] == 'after1':
                            headers['If-Modified-Since'] = format_httpdate(lm_ts + 1)
                            expect304 = None
                        else:
                            headers['If-Modified-Since'] = 'yesterday at noon'
                            expect304 = False
                    st, hd2, body2, calls2 = get(u, headers)
                    if calls2:
                        continue        # the tile expired and was rewritten by this very request
                    judged[0] += 1
                    if st == 304:
                        if expect304 is False:
                            raise Bad('unjustified-304', '%s: 304 for %r although the stored tile has ETag %r / Last-Modified %r' % (
                                what, headers, cur['etag'], cur['lm']))
                        if body2:
                            raise Bad('304-with-body', '%s: 304 response carries %d body bytes' % (what, len(body2)))
                        probes['304_' + op[2]] = probes.get('304_' + op[2], 0) + 1
                    elif st == 200:
                        if expect304 is True:
                            raise Bad('missing-304', '%s: request with the current ETag %r was answered 200' % (what, cur['etag']))
                        kind2, val2 = _decode(body2)
                        if kind2 != 'tile' or val2 != cur['gen'] or hd2.get('etag') != cur['etag']:
                            raise Bad('validators-changed', '%s: conditional 200 differs from the probe: gen %r vs %r, ETag %r vs %r' % (
                                what, val2, cur['gen'], hd2.get('etag'), cur['etag']))
                    else:
                        raise Bad('unexpected-status', '%s: status %d' % (what, st))
                clock.now += 0.011
    except Bad as b:
        v = {'sig': 'C20:%s:%s' % (b.kind, name), 'msg': b.msg}
    finally:
        if realdir is not None:
            try:
                for c in pc.caches.values():
                    for _, _, tm in c.caches():
                        tm.cleanup()
            except Exception:
                pass
            shutil.rmtree(realdir, ignore_errors=True)
    probes['conditional_requests_judged'] = judged[0]
    if fills[0]:
        probes['fill_images_served'] = fills[0]
    faults = {}
    nfail = sum(1 for e in http.log if e['ok'] is False)
    if nfail:
        faults['upstream_http_500'] = nfail
    return {'violation': v, 'digest': C.digest_of(sc['service'], sc['backend'], sc['meta_size'], sc['refresh'], sc['ops'], sc['coords'], [(e['gen'], e['ok'], e['url']) for e in http.log], w.fs.op_count, round(clock.now, 6)),
            'nontrivial': judged[0] > 0 or fills[0] > 0, 'steps': len(sc['ops']), 'sim_time': clock.now - 1.7e9,
            'faults': faults, 'probes': probes,
            'sample': {'deployment': name, 'ops': sc['ops'][:14], 'upstream_calls': len(http.log)}}


if __name__ == '__main__':
    import checks.c20 as me
    from simkit import driver
    driver.main(me)
