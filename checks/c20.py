"""C20 - conditional requests are honoured soundly.

Full stack: the MapProxy WSGI application built by the real configuration loader (TMS, KML,
WMTS REST + KVP, WMS-C), a file cache on SimFS or a per-level sqlite cache on tmpfs, the HTTP
client replaced by a simulated upstream (position/generation encoding, switchable HTTP 500), the
simulated clock.  Histories of GETs, conditional GETs, clock advances, rewrites through the real
expiry path, upstream failures mapped to uncached fill images.
"""
import copy
import os
import shutil
import sys
from io import BytesIO

sys.path.insert(0, os.path.dirname(os.path.dirname(os.path.abspath(__file__))))

from simkit.world import World, _REAL  # noqa: E402
from checks import common as C  # noqa: E402
from checks import upstream as U  # noqa: E402
from checks import fullstack as F  # noqa: E402

PROP = 'C20'
LEVEL = 'exploration'
VERSION = 1
BUDGET = {'quick': 50, 'thorough': 600}
CHUNK = {'quick': 10, 'thorough': 20}
RULE = ('one case = one seeded history (8-40 ops) of unconditional GETs, conditional GETs (If-None-Match: current / '
        'previous / garbage; If-Modified-Since: before / equal / after / previous copy / ancient / malformed, spelled as IMF-fixdate, RFC 850 or asctime), clock advances, rewrites through the '
        'expiry path and upstream-500 periods, over 2-4 tile URLs of one service flavour (TMS, KML, WMTS REST, WMTS KVP, '
        'WMS-C) on one backend (a single cache - optionally with an invisible watermark filter -, a cache cutting its tiles out of an inner cache with a larger tile size, or WMS-C requests merged from two cached layers) in a seeded fixed-offset local time zone (about one case in twelve is a race instead: a seeding process rewrites the tile through the cache API while 1-2 requests for it are served, scheduled at file-system-call granularity); non-trivial = at least one conditional request was judged against a cached tile or a fill '
        'image was served; distinct = distinct (deployment, ops) hash')
COMPONENTS = {
    'real': ['mapproxy.config.loader.ProxyConfiguration (app built from a config dict)', 'mapproxy.wsgiapp.MapProxyApp',
             'mapproxy.service.tile / wmts / kml / wms', 'mapproxy.response.Response (cache_headers, make_conditional)',
             'mapproxy.util.times', 'mapproxy.layer / cache.tile.TileManager', 'mapproxy.source.wms + client.wms + source.error',
             'mapproxy.cache.file.FileCache', 'mapproxy.cache.mbtiles.MBTilesLevelCache'],
    'stub': ['HTTP client transport (HTTPClient.open -> simulated upstream)', 'clock', 'file system for the file cache (SimFS)', 'sqlite3 module as seen by mapproxy.cache.mbtiles in the race mode (checks/simsql.py: calls are pre-emption points, SQL executed by the real library)'],
    'outside_the_seams': ['sqlite file I/O on tmpfs'],
}
ASSUMPTIONS = [
    'the response that creates or rewrites a tile (an upstream fetch happened while it was served) is excluded from the '
    'validator-equality clause, as the statement starts "once a tile is in the cache"',
    'one conditional header per request; If-Modified-Since "matches" when its second is >= the Last-Modified second',
    'a tile is "rewritten" iff the fetch generation encoded in its pixels changes',
]
SERVICES = ['tms', 'kml', 'wmts', 'wmtskvp', 'wmsc']
_seq = [0]


url_for = F.url_for


OCEANS = [(7, 7, 7), (9, 9, 9)]


def _gen_race(t):
    z = t.pick([1, 2, 3])
    n = 1 << z
    return {'kind': 'race', 'service': t.pick(SERVICES), 'coord': [t.choice(n), t.choice(n), z],
            'policy': t.pick([['random'], ['sticky', 0.5], ['sticky', 0.2]]), 'readers': t.randint(1, 2),
            'gap': t.pick([1.5, 3.0, 0.2]), 'frac': t.pick([0.0, 0.4]), 'tz': t.pick(C.TIMEZONES),
            # the per-level SQLite backend: its calls are the pre-emption points (checks/simsql.py); with a refresh rule the
            # tile manager asks for the tile's metadata after it has loaded the tile
            'backend': t.pick(['file', 'file', 'sqlite']), 'refresh': t.pick([None, 3600, 3600])}


def _run_race(sc, tape):
    """a tile is rewritten (by a seeding process storing through the cache API) while it is being served: whatever
    interleaving of the file-system calls, the validators a response carries must belong to the body it carries -
    otherwise the client revalidates its stale body with the ETag of the new tile and is told 304 for ever"""
    import mapproxy.client.http as H
    import mapproxy.util.times as times
    from mapproxy.cache.tile import Tile
    from mapproxy.image import ImageSource
    from PIL import Image
    from simkit.sched import SimAbort, SimCrash
    backend = sc.get('backend', 'file')
    name = '%s:%s:race' % (sc['service'], backend)
    w = World(tape, policy=tuple(sc['policy']), step_cap=200000, start_time=1.7e9 + sc['frac'])
    realdir = None
    if backend == 'sqlite':
        from mapproxy.cache import mbtiles as mbtiles_mod
        from checks.simsql import SimSqlite
        from simkit.sched import simulate_module_primitives
        _seq[0] += 1
        realdir = '/dev/shm/verif-c20-%d-%d' % (_REAL['os.getpid'](), _seq[0])
        os.makedirs(realdir)
        old_cwd = os.getcwd()
        os.chdir(realdir)       # the configured path must be the same string in every worker (lock names derive from it)
        w.extra_patches.append((mbtiles_mod, 'sqlite3', SimSqlite(w)))
        simulate_module_primitives(w, mbtiles_mod)
    try:
        return _run_race2(sc, tape, w, name, backend)
    finally:
        if realdir is not None:
            import gc
            import shutil
            gc.collect()
            os.chdir(old_cwd)
            shutil.rmtree(realdir, ignore_errors=True)


def _run_race2(sc, tape, w, name, backend):
    import mapproxy.client.http as H
    import mapproxy.util.times as times
    from mapproxy.cache.tile import Tile
    from mapproxy.image import ImageSource
    from PIL import Image
    from simkit.sched import SimAbort, SimCrash
    sched = w.sched
    clock = w.clock
    http = F.SimHTTP(w)
    w.extra_patches.append((H.HTTPClient, 'open', lambda self, url, data=None, method=None: http.open(self, url, data, method)))
    w.extra_patches.append((times, 'datetime', C.datetime_module(clock)))
    cache_conf = {'type': 'file', 'directory_layout': 'tc'} if backend == 'file' else \
        {'type': 'sqlite', 'directory': '/proc/self/cwd/cache'}
    conf = F.base_conf(cache_conf, meta_size=[1, 1],
                       refresh_before={'seconds': sc['refresh']} if sc.get('refresh') else None)
    coord = tuple(sc['coord'])
    path, query = url_for(sc['service'], coord)
    v = None
    out = {}
    probes = {'mode_race': 1}
    with w:
        app, pc = F.make_app(conf)
        tm = [tmx for _, _, tmx in pc.caches['c1'].caches()][0]
        st, hd, body = F.wsgi_get(app, path, query)        # creates the tile (generation 1)
        clock.now += sc['gap']
        bbox = tm.grid.tile_bbox(coord)
        new_gen = 77
        t_created = max([e['t1'] for e in http.log if e['ok']] or [clock.now - sc['gap']])
        t_store = [None, None]

        def writer():
            img = Image.frombytes('RGB', (U.TS, U.TS), U.render(bbox, (U.TS, U.TS), new_gen))
            tile = Tile(coord, ImageSource(img, image_opts=tm.image_opts))
            cache = [tmx for _, _, tmx in F.make_conf(conf).caches['c1'].caches()][0].cache     # the other process's object
            t_store[0] = clock.now
            cache.store_tile(tile)
            t_store[1] = clock.now

        def reader(i):
            def fn():
                out[i] = F.wsgi_get(app, path, query)
            return fn
        sched.spawn(writer, 'seeder', w.new_proc('seeder'))
        server = w.new_proc('server')
        for i in range(sc['readers']):
            sched.spawn(reader(i), 'request%d' % i, server)
        outcome = w.run_tasks()
        for t_ in sched.tasks:
            if t_.exc is not None and not isinstance(t_.exc, (SimAbort, SimCrash)):
                raise t_.exc
        if outcome != 'done':
            v = {'sig': 'C20:race-hang:%s' % name, 'msg': 'requests and the concurrent store did not terminate: %s %r' % (
                outcome, sched.stuck_info)}
        else:
            st2, hd2, body2 = F.wsgi_get(app, path, query)       # quiescent: what is stored now, and its validators
            kind2, gen2 = _decode(body2)
            for i in sorted(out):
                st1, hd1, body1 = out[i]
                kind1, gen1 = _decode(body1)
                if st1 != 200 or kind1 != 'tile' or gen1 not in (1, new_gen):
                    v = {'sig': 'C20:race-wrong-response:%s' % name, 'msg': 'request %d during the rewrite: status %s, body %s %r' % (
                        i, st1, kind1, gen1)}
                    break
                # (a backend with whole-second time stamps cannot tell two writes within one second apart)
                same_second = backend == 'sqlite' and t_store[0] is not None and \
                    int(t_created) in (int(t_store[0]), int(t_store[1] if t_store[1] is not None else t_store[0]))
                if same_second and body1 != body2:
                    probes['race_within_one_second_of_a_whole_second_backend'] = 1
                elif hd1.get('etag') is not None and hd1.get('etag') == hd2.get('etag') and body1 != body2:
                    st3, hd3, body3 = F.wsgi_get(app, path, query, {'If-None-Match': hd1['etag']})
                    v = {'sig': 'C20:validators-of-another-body:%s' % name,
                         'msg': 'a response served while the tile was being rewritten carries the body of generation %r with the '
                                'ETag %r of the tile as stored afterwards (generation %r): revalidating that copy with '
                                'If-None-Match is answered %d' % (gen1, hd1.get('etag'), gen2, st3)}
                    break
                if gen1 == 1 and gen2 == new_gen and hd1.get('last-modified') == hd2.get('last-modified') and sc['gap'] >= 1.5:
                    v = {'sig': 'C20:validators-of-another-body:%s' % name,
                         'msg': 'the old body was sent with the Last-Modified %r of the rewritten tile' % (hd1.get('last-modified'),)}
                    break
                if gen1 != gen2:
                    probes['response_older_than_store'] = 1
    return {'violation': v, 'digest': C.digest_of('race', sc['service'], sched.log), 'nontrivial': True, 'steps': sched.steps,
            'sim_time': clock.now - 1.7e9, 'faults': {}, 'probes': probes,
            'sample': {'mode': 'race', 'service': sc['service'], 'coord': sc['coord'], 'readers': sc['readers']}}


def gen(t, tier):
    if t.chance(0.08):
        return _gen_race(t)
    z = t.pick([1, 2, 3])
    n = 1 << z
    coords = []
    for _ in range(t.randint(2, 4)):
        c = [t.choice(n), t.choice(n), z]
        if c not in coords:
            coords.append(c)
    backend = t.weighted([('file', 6), ('sqlite', 4), ('file-link', 4), ('file-hardlink', 1)])
    anylink = backend in ('file-link', 'file-hardlink')
    sc = {'service': t.pick(SERVICES), 'backend': backend,
          'meta_size': t.pick([[1, 1], [1, 1], [2, 2]]), 'refresh': t.pick([None, 30, 30, 3600]),
          'fill': t.pick(['#ff0000', 'transparent']), 'coords': coords, 'ops': [], 'frac': t.pick([0.0, 0.4]),
          'ocean': anylink or bool(t.chance(0.15)),
          # a cache merged from two sources; in upstream-failure periods only the overlay source fails
          'two_sources': not anylink and bool(t.chance(0.3))}
    # a second on_error mapping with the same colour whose fill image is to be cached (404), next to the uncached 500
    sc['err404'] = not sc['two_sources'] and not anylink and bool(t.chance(0.3))
    sc['err_default'] = sc['err404'] and bool(t.chance(0.5))
    # a cache on top of another cache with a different tile size (same SRS and resolutions): the outer cache cuts its (meta)
    # tiles out of the merged tiles of the inner one; tiles are only ever created, never rewritten, in these cases
    sc['cascade'] = backend == 'file' and not sc['two_sources'] and not sc['err404'] and bool(t.chance(0.15))
    sc['watermark'] = not sc['cascade'] and bool(t.chance(0.15))
    # the source makes one colour transparent (a colour the simulated upstream never paints): every answer of the source -
    # error fill images included - passes through that extra image operation
    sc['transp_color'] = bool(t.chance(0.2))
    sc['wmsc2'] = sc['service'] == 'wmsc' and backend == 'file' and not (sc['cascade'] or sc['two_sources'] or sc['err404']) and \
        bool(t.chance(0.4))
    if sc['wmsc2']:
        sc['ocean'] = False
    if sc['cascade']:
        sc['refresh'] = None
        sc['ocean'] = False
        sc['meta_size'] = t.pick([[1, 1], [2, 2]])
        sc['meta_buffer'] = t.pick([0, 2, 3])
    if anylink:
        # make sure at least two requested tiles are constant-colour ones (they share the single-colour files)
        for x in range(n):
            for y in range(n):
                if U.is_ocean_tile([x, y, z]) and [x, y, z] not in coords and \
                        sum(1 for c in coords if U.is_ocean_tile(c)) < 2:
                    coords.append([x, y, z])
        sc['refresh'] = t.pick([None, None, 30])
    nops = t.randint(8, 20 if tier == 'quick' else 40)
    if backend == 'file-link' and t.chance(0.5):
        # linked single-colour tiles share one file per colour: colour changes of one tile while another tile holds
        # the other colour are the interesting histories; seed the history with such a skeleton (then random ops)
        oc = [i for i, c in enumerate(coords) if U.is_ocean_tile(c)]
        x, y = oc[0], oc[-1]
        a = t.choice(2)
        sc['ops'] += [['ocean', a], ['get', y], ['adv', t.pick([1, 2, 10])], ['ocean', 1 - a], ['get', x], ['get', x],
                      ['adv', t.pick([1, 2, 10])], ['ocean', a], ['purge', x], ['get', x], ['get', x],
                      ['cond', x, t.pick(['ims', 'inm']), 'previous']]
    if backend == 'sqlite' and not sc['two_sources'] and t.chance(0.3):
        # a backend with whole-second time stamps: a tile is replaced within the second in which the previous version was
        # written, by an image of another size (a constant-colour tile becomes a detailed one or the other way round)
        sc['ocean'] = True
        for xx in range(n):
            for yy in range(n):
                if U.is_ocean_tile([xx, yy, z]) and [xx, yy, z] not in coords and not any(U.is_ocean_tile(c) for c in coords):
                    coords.append([xx, yy, z])
        x = [i for i, c in enumerate(coords) if U.is_ocean_tile(c)][0]
        a = t.choice(2)
        first, second = t.pick([(a, 2), (2, a)])
        sc['ops'] += [['ocean', first], ['get', x], ['get', x], ['ocean', second], ['purge', x], ['get', x], ['get', x],
                      ['cond', x, 'inm', 'previous']]
    for _ in range(nops):
        linked = backend == 'file-link'
        # hard links: all tiles of one colour are one inode with one time stamp - a tile that changes its colour takes over the
        # time of the other colour's file (documented limitation, DESIGN.md section 14); the colours stay as they are here, so a
        # constant-colour tile is only ever rewritten with the bytes it already had
        hard = backend == 'file-hardlink'
        k = t.weighted([('get', 5), ('cond', 8), ('adv', 3), ('rewrite', (6 if linked or hard else 2) if sc['refresh'] else 0),
                        ('up500', 1 if linked else 2), ('up404', 2 if sc.get('err404') else 0), ('cond_refresh', 2 if sc['refresh'] else 0),
                        ('ocean', 0 if hard else (5 if linked else (2 if sc['ocean'] else 0))),
                        ('purge', 0 if sc.get('cascade') else (4 if linked or hard else 1)),
                        ('diskfail', 1 if backend == 'file' and not sc.get('cascade') else 0)])
        u = t.choice(len(coords))
        if k == 'get':
            sc['ops'].append(['get', u])
        elif k == 'cond':
            if t.chance(0.5):
                sc['ops'].append(['cond', u, 'inm', t.pick(['current', 'current', 'previous', 'garbage', 'quoted'])])
            else:
                sc['ops'].append(['cond', u, 'ims', t.pick(['before', 'equal', 'after', 'after1', 'malformed', 'ancient',
                                                            'previous', 'previous'] + (['previous'] * 6 if linked else [])),
                                  t.pick(['imf', 'imf', 'rfc850', 'asctime'])])
        elif k == 'cond_refresh':
            sc['ops'].append(['cond_refresh', u, t.pick(['inm', 'ims'])])
        elif k == 'adv':
            # (negative: the server's clock is set back - tiles stored before are now "from the future")
            sc['ops'].append(['adv', t.pick([0.5, 1, 2, 10, 'boundary', 4000, 90000, 0.5, 1, 2, 10, 'boundary', 4000, 90000, -3, -4000])])
        elif k == 'rewrite':
            sc['ops'].append(['rewrite', u])
        elif k == 'ocean':
            sc['ops'].append(['ocean', t.choice(2)])
        elif k == 'purge':
            sc['ops'].append(['purge', u])
        elif k == 'diskfail':
            sc['ops'].append(['purge', u])
            sc['ops'].append(['diskfail', u])
        elif k == 'up404':
            sc['ops'].append(['up404', bool(t.choice(2))])
        else:
            sc['ops'].append(['up500', bool(t.choice(2))])
    sc['tz'] = t.pick(C.TIMEZONES)
    return sc


def shrink(sc):
    if sc.get('kind') == 'race':
        if sc['readers'] > 1:
            c = copy.deepcopy(sc)
            c['readers'] = 1
            yield c
        return
    if sc.get('tz', 'UTC') != 'UTC':
        c = copy.deepcopy(sc)
        c['tz'] = 'UTC'
        yield c
    n = len(sc['ops'])
    size = n // 2
    while size >= 1:
        for i in range(0, n, size):
            c = copy.deepcopy(sc)
            del c['ops'][i:i + size]
            yield c
        size //= 2
    if sc['meta_size'] != [1, 1]:
        c = copy.deepcopy(sc)
        c['meta_size'] = [1, 1]
        yield c
    if sc['frac']:
        c = copy.deepcopy(sc)
        c['frac'] = 0.0
        yield c


class Bad(Exception):
    def __init__(self, kind, msg):
        Exception.__init__(self, msg)
        self.kind = kind
        self.msg = msg


def _decode(body):
    """('tile', generation) | ('fill', colour) | ('other', None)"""
    from PIL import Image
    try:
        img = Image.open(BytesIO(body)).convert('RGBA')
    except Exception:
        return 'other', None
    px = img.tobytes()
    first = px[:4]
    if all(px[i:i + 4] == first for i in range(0, len(px), 4)):
        if tuple(first[:3]) in OCEANS and first[3] == 255:
            return 'ocean', tuple(first[:3])
        return 'fill', tuple(first)
    gens = set(px[i + 2] for i in range(0, len(px), 4))
    if len(gens) == 1:
        return 'tile', gens.pop()
    return 'other', None


def run(sc, tape):
    with C.local_timezone(sc.get('tz')):
        return _run(sc, tape)


def _run(sc, tape):
    if sc.get('kind') == 'race':
        return _run_race(sc, tape)
    import mapproxy.client.http as H
    import mapproxy.util.times as times
    import datetime as real_dt
    import types
    parse_httpdate = C.parse_imf_date       # the check reads and writes HTTP dates with its own code

    name = '%s:%s%s' % (sc['service'], sc['backend'], '-meta' if sc['meta_size'] != [1, 1] else '')
    w = World(tape, with_sched=False, start_time=1.7e9 + sc['frac'])
    clock = w.clock
    w.fs.mtime_res = sc.get('mtime_res')
    http = F.SimHTTP(w)
    if sc.get('ocean'):
        http.ocean = OCEANS[0]
    w.extra_patches.append((H.HTTPClient, 'open', lambda self, url, data=None, method=None: http.open(self, url, data, method)))

    w.extra_patches.append((times, 'datetime', C.datetime_module(clock)))
    realdir = None
    if sc['backend'] in ('file', 'file-link', 'file-hardlink'):
        cache_conf = {'type': 'file', 'directory_layout': 'tc'}
    else:
        _seq[0] += 1
        realdir = '/dev/shm/verif-c20-%d-%d' % (_REAL['os.getpid'](), _seq[0])
        os.makedirs(realdir)
        cache_conf = {'type': 'sqlite', 'directory': realdir}
    conf = F.base_conf(cache_conf, meta_size=sc['meta_size'],
                       refresh_before={'seconds': sc['refresh']} if sc['refresh'] else None,
                       on_error_color=sc['fill'],
                       link={'file-link': True, 'file-hardlink': 'hardlink'}.get(sc['backend'], False))
    if sc.get('transp_color'):
        conf['sources']['src']['image'] = {'transparent_color': '#0102fd', 'transparent_color_tolerance': 0}
    if sc.get('two_sources'):
        conf['sources']['src2'] = {'type': 'wms', 'req': {'url': 'http://upstream.sim/service?', 'layers': 'b'},
                                   'supported_srs': ['EPSG:3857'],
                                   'on_error': {500: {'response': sc['fill'], 'cache': False}}}
        conf['caches']['c1']['sources'] = ['src', 'src2']
        http.fail_layers = set(['b'])
    if sc.get('cascade'):
        inner = copy.deepcopy(conf['caches']['c1'])
        inner['grids'] = ['g0']
        inner['meta_size'] = [1, 1]
        inner['meta_buffer'] = 0
        conf['caches']['c0'] = inner
        # same resolutions as grid g, tiles twice as large: not the tile-by-tile link the loader sets up for equal grids
        conf['grids']['g0'] = {'srs': 'EPSG:3857', 'tile_size': [2 * U.TS, 2 * U.TS], 'origin': 'll',
                               'res': [U.level_res(z_) for z_ in range(conf['grids']['g']['num_levels'])]}
        conf['caches']['c1']['sources'] = ['c0']
        conf['caches']['c1']['meta_buffer'] = sc.get('meta_buffer', 0)
    if sc.get('watermark'):
        # a pre-store filter that replaces the tile's image object (an invisible watermark: one blank, fully transparent)
        conf['caches']['c1']['watermark'] = {'text': ' ', 'opacity': 0}
    if sc.get('err404'):
        # a second error mapping with the same fill colour that IS to be cached (a 404 of the upstream = "no data here")
        conf['sources']['src']['on_error'] = {404: {'response': sc['fill'], 'cache': True},
                                              500: {'response': sc['fill'], 'cache': False}}
        if sc.get('err_default'):
            # the entry for 500 leaves `cache` to its documented default (False) and comes after the caching one
            del conf['sources']['src']['on_error'][500]['cache']

    layer_param = 'lay'
    if sc.get('wmsc2'):
        # WMS-C request for two cached layers at once: the base layer and a (here: empty, fully transparent) overlay layer
        # with a cache of its own; the answer is merged from one tile of each cache
        conf['sources']['src_t'] = {'type': 'wms', 'req': {'url': 'http://upstream.sim/service?', 'layers': 't', 'transparent': True},
                                    'supported_srs': ['EPSG:3857'],
                                    'on_error': {500: {'response': 'transparent', 'cache': False}}}
        c2 = copy.deepcopy(conf['caches']['c1'])
        c2['sources'] = ['src_t']
        c2['image'] = {'colors': 0, 'mode': 'RGBA', 'transparent': True}
        conf['caches']['c2'] = c2
        conf['layers'].append({'name': 'ovl', 'title': 'overlay', 'sources': ['c2']})
        http.transparent_layers = set(['t'])
        layer_param = 'lay,ovl'
    coords = [tuple(c) for c in sc['coords']]
    urls = [url_for(sc['service'], c, layer_param) for c in coords]
    last = {}            # url index -> last non-creating 200 response of the current epoch
    prev = {}            # url index -> validators of an older epoch: {'etag', 'lm'}
    judged = [0]
    fills = [0]
    tainted = {}         # url index -> epoch at which a response containing an error fill was served
    probes = {}
    v = None

    def epoch(u):
        """number of successful upstream fetches that covered this URL's tile so far = how often it was (re)written"""
        return sum(1 for e in http.log if e['ok'] and e.get('bbox') and U.covers(e['bbox'], coords[u]))

    disk = {'armed': False, 'fired': False}
    stepped_back = [False]

    def disk_hook(op_, key, proc):
        if disk['armed'] and op_ in ('write', 'rename') and '/cache/' in str(key) and '.lck' not in str(key):
            disk['fired'] = True
            import errno as _errno
            e = OSError(_errno.ENOSPC, os.strerror(_errno.ENOSPC), str(key))
            e.injected = True
            raise e
        return None
    if sc['backend'].startswith('file'):
        w.fs.fault_hook = disk_hook
    purges = []          # (length of the upstream log at that moment, url index)
    outer_seen = set()   # cascade: addresses whose first tile response has been seen
    created_now = [False]

    def stored_kind(u):
        """what the history so far has put into the cache for this tile: every upstream answer covering it (alone or as part
        of a meta tile) replaces it - an image, or the cacheable fill image of a 404; a 500 stores nothing; a purge removes it"""
        timeline = [(i, 'tile' if e['ok'] else ('fill404' if e.get('code') == 404 else None), bool(e.get('store_unknown')))
                    for i, e in enumerate(http.log) if e.get('bbox') and e['ok'] is not None and U.covers(e['bbox'], coords[u])]
        timeline += [(pos - 0.5, 'purge', False) for pos, u2 in purges if u2 == u]
        kinds = set([None])
        for _, what_, unknown in sorted(timeline, key=lambda x: x[0]):
            if what_ == 'purge':
                kinds = set([None])
            elif what_ is not None and unknown:
                # fetched while the disk was full: this tile of the (meta) tile may or may not have been written
                kinds = kinds | set([what_])
            elif what_ is not None:
                kinds = set([what_])
        return kinds

    def get(u, headers=None):
        n0 = len(http.log)
        st, hd, body = F.wsgi_get(app, urls[u][0], urls[u][1], headers)
        calls = http.log[n0:]
        return st, hd, body, calls

    def observe(u, st, hd, body, calls, what):
        """checks on any unconditional response; returns (kind, content id)"""
        if st != 200:
            raise Bad('unexpected-status', '%s: status %d, body %r' % (what, st, body[:200]))
        kind, val = _decode(body)
        cc = hd.get('cache-control', '')
        failed = [e for e in calls if e['ok'] is False]
        if kind == 'fill' and sc.get('err404'):
            if failed and all(e.get('code') == 404 for e in failed):
                # the configuration says: cache this one
                probes['cacheable_404_fills'] = probes.get('cacheable_404_fills', 0) + 1
                return kind, val
            if not failed and 'fill404' in stored_kind(u):
                probes['cached_404_fill_served'] = probes.get('cached_404_fill_served', 0) + 1
                return kind, val
        if kind == 'fill':
            fills[0] += 1
            if not any(e['ok'] is False for e in calls):
                raise Bad('fill-image-from-cache', '%s: a fill image was served although no upstream call failed during the '
                          'request - an uncacheable error image must have been stored' % what)
            if 'no-store' not in cc:
                raise Bad('fill-image-cacheable', '%s: uncached fill image sent with Cache-Control %r, ETag %r, Last-Modified %r '
                          'instead of no-store directives' % (what, cc, hd.get('etag'), hd.get('last-modified')))
            if hd.get('etag') and http.fail_code:
                # nothing is stored for this address in this state: a 304 can never be justified
                st2, hd2, body2, calls2 = get(u, {'If-None-Match': hd['etag']})
                if st2 == 304:
                    raise Bad('fill-image-304', '%s: the uncached fill image came with ETag %r and a request carrying it was '
                              'answered 304 although no tile is stored' % (what, hd['etag']))
            return kind, val
        if kind not in ('tile', 'ocean'):
            raise Bad('undecodable-body', '%s: body is not a tile image' % what)
        if any(e['ok'] is False for e in calls):
            # part of this image is an uncacheable error fill (one of the merged sources failed)
            fills[0] += 1
            if 'no-store' not in cc:
                raise Bad('fill-image-cacheable', '%s: an upstream source failed while this response was built (its part is an '
                          'uncached fill image) but it was sent with Cache-Control %r, ETag %r instead of no-store directives' % (
                              what, cc, hd.get('etag')))
            return 'fill', val
        if tainted.get(u) == epoch(u) and not calls:
            raise Bad('fill-image-from-cache', '%s: the previous response for this tile contained an uncached fill image (a '
                      'source had failed) and this one was served from the cache without asking the upstream again' % what)
        if kind == 'ocean' and not (sc.get('ocean') and U.is_ocean_tile(coords[u])):
            raise Bad('undecodable-body', '%s: constant-colour body for a tile that is not an ocean tile' % what)
        ep = epoch(u)
        creating = any(e['ok'] for e in calls)
        if sc.get('cascade') and u not in outer_seen:
            # cache on cache: the outer tile may be created from tiles the inner cache already holds, without any upstream
            # call - the first tile response for an address counts as the creating one
            creating = True
            outer_seen.add(u)
            created_now[0] = True
        else:
            created_now[0] = False
        if not creating:
            l = last.get(u)
            if l is not None and l['epoch'] == ep:
                if (l['etag'], l['lm'], l['body']) != (hd.get('etag'), hd.get('last-modified'), body):
                    raise Bad('validators-changed', '%s: the tile was not rewritten (no upstream fetch since) but validators/body '
                              'changed: ETag %r -> %r, Last-Modified %r -> %r, body equal: %s' % (
                                  what, l['etag'], hd.get('etag'), l['lm'], hd.get('last-modified'), l['body'] == body))
            if l is not None and l['epoch'] != ep and l['etag'] is not None:
                prev[u] = {'etag': l['etag'], 'lm': l['lm']}
                # (a backend with whole-second timestamps cannot tell two writes of equal size within one second apart)
                # - but it can tell them apart when their sizes differ (the tile services send the stored bytes as they are)
                if l['etag'] == hd.get('etag') and l['body'] != body and \
                        (sc['backend'].startswith('file') or l['lm'] != hd.get('last-modified') or
                         (sc['service'] != 'wmsc' and len(l['body']) != len(body))):
                    raise Bad('etag-unchanged-after-rewrite', '%s: the tile was rewritten with different content but still has the '
                              'ETag %r: a client revalidating its old copy is answered 304' % (what, l['etag']))
                # the rewrite happened at least two seconds after the previous write: its Last-Modified has to move on
                covering = [e for e in http.log if e['ok'] and e.get('bbox') and U.covers(e['bbox'], coords[u])]
                # which fetch wrote a copy is read from its pixels (the fetch generation) where possible: a successful fetch need
                # not have been stored (the other source of a merged tile failed, the disk was full)
                if kind == 'tile' and isinstance(l.get('val'), int) and isinstance(val, int):
                    e_prev = [e for e in covering if e['gen'] & 255 == l['val']]
                    e_cur = [e for e in covering if e['gen'] & 255 == val]
                    times = (e_prev[0]['t1'], e_cur[0]['t1']) if len(e_prev) == 1 and len(e_cur) == 1 else None
                elif 0 < l['epoch'] <= len(covering) and ep <= len(covering) and not sc.get('two_sources') and \
                        not any(o[0] == 'diskfail' for o in sc['ops']):
                    times = (covering[l['epoch'] - 1]['t1'], covering[ep - 1]['t1'])
                else:
                    times = None
                if times is not None and not sc.get('cascade'):
                    t_prev, t_cur = times
                    if l['body'] != body and t_cur - t_prev >= 2.0 and l['lm'] is not None and l['lm'] == hd.get('last-modified'):
                        raise Bad('last-modified-unchanged-after-rewrite', '%s: the tile was rewritten %.1f s after the previous '
                                  'write with different content but still reports Last-Modified %r: If-Modified-Since with the date '
                                  'of the old copy is answered 304' % (what, t_cur - t_prev, l['lm']))
            last[u] = {'epoch': ep, 'etag': hd.get('etag'), 'lm': hd.get('last-modified'), 'body': body, 'val': val}
        return kind, val

    def probe(u, what):
        """current validators of a cached tile (None if a fill image / nothing cacheable is being served)"""
        for _ in range(2):
            st, hd, body, calls = get(u)
            kind, val = observe(u, st, hd, body, calls, what + ' (probe)')
            if kind == 'fill':
                return None
            if not any(e['ok'] for e in calls) and not created_now[0]:
                if hd.get('etag') is None and hd.get('last-modified') is None:
                    # no validators offered at all (e.g. a WMS-C image that had to be re-merged): nothing to revalidate
                    probes['responses_without_validators'] = probes.get('responses_without_validators', 0) + 1
                    return None
                if hd.get('etag') is None or hd.get('last-modified') is None:
                    raise Bad('missing-validators', '%s: cached tile served with only one of ETag/Last-Modified: %r' % (what, hd))
                return {'etag': hd.get('etag'), 'lm': hd.get('last-modified'), 'val': val, 'epoch': epoch(u), 'body': body}
        return None

    try:
        with w:
            app, pc = F.make_app(conf)
            for i, op in enumerate(sc['ops']):
                what = 'op#%d %r on %s' % (i, op, urls[op[1]][0] + ('?' + urls[op[1]][1][:40] if urls[op[1]][1] else '')
                                            if op[0] in ('get', 'cond', 'rewrite', 'cond_refresh', 'purge') else '')
                k = op[0]
                if k == 'adv':
                    clock.now = float(int(clock.now) + 1) if op[1] == 'boundary' else clock.now + op[1]
                    if op[1] != 'boundary' and op[1] < 0:
                        stepped_back[0] = True
                        probes['clock_set_back'] = probes.get('clock_set_back', 0) + 1
                elif k == 'up500':
                    http.fail_code = 500 if op[1] else None
                elif k == 'up404':
                    http.fail_code = 404 if op[1] else None
                elif k == 'ocean':
                    http.ocean = OCEANS[op[1]] if op[1] < len(OCEANS) else None     # 2: no constant-colour tiles at all
                elif k == 'purge':
                    # an operator removes the tile (cleanup); the next request re-creates it
                    from mapproxy.cache.tile import Tile
                    tm = [tmx for _, _, tmx in pc.caches['c1'].caches()][0]
                    tm.cache.remove_tile(Tile(coords[op[1]]))
                    purges.append((len(http.log), op[1]))
                    if hasattr(tm.cache, 'cleanup'):
                        tm.cache.cleanup()
                elif k == 'diskfail':
                    # the disk is full while the tile of this request is to be stored (twice in a row): whatever is answered,
                    # a validator handed out for a tile that is not in the cache must never be confirmed with 304
                    from mapproxy.cache.tile import Tile
                    u = op[1]
                    tm = [tmx for _, _, tmx in pc.caches['c1'].caches()][0]
                    path_ = tm.cache.tile_location(Tile(coords[u]))
                    disk['armed'] = True
                    try:
                        st, hd, body, calls = get(u)
                    finally:
                        fired = disk['fired']
                        disk.update({'armed': False, 'fired': False})
                    if fired:
                        for e_ in calls:
                            e_['store_unknown'] = True
                        probes['disk_full_while_storing'] = probes.get('disk_full_while_storing', 0) + 1
                    if fired and st == 200 and hd.get('etag') and not w.fs.exists(path_):
                        disk['armed'] = True
                        t_second = len(http.log)
                        try:
                            st2, hd2, body2, calls2 = get(u, {'If-None-Match': hd['etag']})
                        finally:
                            if disk['fired']:
                                for e_ in http.log[t_second:]:
                                    e_['store_unknown'] = True
                            disk.update({'armed': False, 'fired': False})
                        if st2 == 304:
                            raise Bad('304-for-unstored-tile', '%s: storing the tile failed (disk full), the response was 200 with ETag %r, '
                                      'nothing is in the cache - and a request carrying that ETag is answered 304' % (what, hd['etag']))
                    # what the failed requests left behind is judged by the following operations
                    last.pop(u, None)
                elif k == 'get':
                    st, hd, body, calls = get(op[1])
                    observe(op[1], st, hd, body, calls, what)
                elif k == 'rewrite':
                    # through the real expiry path: let the tile age beyond refresh_before, then GET it
                    clock.now += sc['refresh'] + 2
                    st, hd, body, calls = get(op[1])
                    observe(op[1], st, hd, body, calls, what)
                elif k == 'cond_refresh':
                    # a conditional request that itself triggers the refresh of an expired tile
                    u = op[1]
                    cur = probe(u, what)
                    if cur is None:
                        continue
                    clock.now += sc['refresh'] + 2
                    headers = {'If-None-Match': cur['etag']} if op[2] == 'inm' else {'If-Modified-Since': cur['lm']}
                    st2, hd2, body2, calls2 = get(u, headers)
                    st3, hd3, body3, calls3 = get(u)
                    kind3, val3 = observe(u, st3, hd3, body3, calls3, what + ' (after)')
                    if kind3 == 'fill':
                        continue
                    judged[0] += 1
                    if st2 == 304 and body3 != cur['body']:
                        raise Bad('stale-304-on-rewrite', '%s: the request carried the validators of the old copy (%r), the tile '
                                  'was rewritten while serving it (upstream fetches: %d) and now has a different body, but the '
                                  'answer was 304 Not Modified' % (what, headers, len(calls2)))
                elif k == 'cond':
                    u = op[1]
                    cur = probe(u, what)
                    if cur is None:
                        continue
                    lm_ts = parse_httpdate(cur['lm'])
                    headers = {}
                    expect304 = None
                    if op[2] == 'inm':
                        if op[3] == 'current':
                            headers['If-None-Match'] = cur['etag']
                            expect304 = True
                        elif op[3] == 'previous':
                            if u not in prev or prev[u]['etag'] == cur['etag']:
                                continue
                            headers['If-None-Match'] = prev[u]['etag']
                            expect304 = False
                        elif op[3] == 'quoted':
                            headers['If-None-Match'] = '"x' + cur['etag'] + '"'
                            expect304 = False
                        else:
                            headers['If-None-Match'] = 'deadbeef' + cur['etag'][8:]
                            expect304 = False
                    else:
                        form = op[4] if len(op) > 4 else 'imf'
                        format_httpdate = lambda ts_: C.http_date(ts_, form)     # noqa: E731
                        if op[3] == 'before':
                            headers['If-Modified-Since'] = format_httpdate(lm_ts - 5)
                            expect304 = False
                        elif op[3] == 'equal':
                            headers['If-Modified-Since'] = cur['lm']
                            expect304 = None        # implementation compares the un-truncated time: either is sound
                        elif op[3] == 'after':
                            headers['If-Modified-Since'] = format_httpdate(lm_ts + 3600)
                            expect304 = None        # 304 allowed (validator matches), not demanded by the statement
                        elif op[3] == 'after1':
                            headers['If-Modified-Since'] = format_httpdate(lm_ts + 1)
                            expect304 = None
                        elif op[3] == 'ancient':
                            headers['If-Modified-Since'] = 'Wed, 01 Jan 1969 00:00:00 GMT'
                            expect304 = False
                        elif op[3] == 'previous':
                            # the date of the client's older copy; the tile has been rewritten since
                            if u not in prev or prev[u]['lm'] is None:
                                continue
                            if sc['backend'] == 'file-hardlink' and prev[u]['etag'] == cur['etag']:
                                # hard-linked constant-colour tile rewritten with the same bytes: same inode, same validators
                                continue
                            plm = parse_httpdate(prev[u]['lm'])
                            headers['If-Modified-Since'] = prev[u]['lm'] if plm is None else format_httpdate(plm)
                            expect304 = False if plm is not None and plm < lm_ts else None
                            if plm is not None and plm == lm_ts and sc['backend'].startswith('file'):
                                # rewritten within the same second: a backend with sub-second timestamps can (and the
                                # code does) tell the current tile from the client's older copy
                                expect304 = False
                            if expect304 is None and plm is not None and plm > lm_ts and not stepped_back[0]:
                                raise Bad('last-modified-went-backwards', '%s: the tile was rewritten after a copy with Last-Modified '
                                          '%r was served, but now reports the older Last-Modified %r' % (what, prev[u]['lm'], cur['lm']))
                        else:
                            headers['If-Modified-Since'] = 'yesterday at noon'
                            expect304 = False
                    st, hd2, body2, calls2 = get(u, headers)
                    if calls2:
                        continue        # the tile expired and was rewritten by this very request (see cond_refresh)
                    judged[0] += 1
                    if st == 304:
                        if expect304 is False:
                            raise Bad('unjustified-304', '%s: 304 for %r although the stored tile has ETag %r / Last-Modified %r' % (
                                what, headers, cur['etag'], cur['lm']))
                        if body2:
                            raise Bad('304-with-body', '%s: 304 response carries %d body bytes' % (what, len(body2)))
                        probes['304_' + op[2]] = probes.get('304_' + op[2], 0) + 1
                    elif st == 200:
                        if expect304 is True:
                            raise Bad('missing-304', '%s: request with the current ETag %r was answered 200' % (what, cur['etag']))
                        if body2 != cur['body'] or hd2.get('etag') != cur['etag']:
                            raise Bad('validators-changed', '%s: conditional 200 differs from the probe: body equal %s, ETag %r vs %r' % (
                                what, body2 == cur['body'], hd2.get('etag'), cur['etag']))
                    else:
                        raise Bad('unexpected-status', '%s: status %d' % (what, st))
                clock.now += 0.011
    except Bad as b:
        v = {'sig': 'C20:%s:%s' % (b.kind, name), 'msg': b.msg}
    finally:
        if realdir is not None:
            try:
                for c in pc.caches.values():
                    for _, _, tm in c.caches():
                        tm.cleanup()
            except Exception:
                pass
            shutil.rmtree(realdir, ignore_errors=True)
    probes['conditional_requests_judged'] = judged[0]
    if fills[0]:
        probes['fill_images_served'] = fills[0]
    faults = {}
    nfail = sum(1 for e in http.log if e['ok'] is False)
    if nfail:
        faults['upstream_http_500'] = nfail
    return {'violation': v, 'digest': C.digest_of(sc['service'], sc['backend'], sc['meta_size'], sc['refresh'], sc['ops'], sc['coords'], sc.get('ocean'), [(e['gen'], e['ok'], e['url']) for e in http.log], w.fs.op_count, round(clock.now, 6)),
            'nontrivial': judged[0] > 0 or fills[0] > 0, 'steps': len(sc['ops']), 'sim_time': clock.now - 1.7e9,
            'faults': faults, 'probes': probes,
            'sample': {'deployment': name, 'ops': sc['ops'][:14], 'upstream_calls': len(http.log)}}


if __name__ == '__main__':
    import checks.c20 as me
    from simkit import driver
    driver.main(me)
