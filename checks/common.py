"""shared helpers of the checks: payloads, cache factories, reference-model plumbing"""
import os
import hashlib
import struct
import zlib
from io import BytesIO

CACHE_DIR = '/simfs/cache'


# ----------------------------------------------------------------------
# payloads: real PNG images; every non-single-colour payload carries a unique token both in
# its pixels and in a tEXt chunk, so that any byte string read back identifies the one store
# that produced it.  Single-colour payloads are byte-identical for equal colour (link sharing
# is then legitimate).

def _chunk(typ, data):
    return struct.pack('>I', len(data)) + typ + data + struct.pack('>I', zlib.crc32(typ + data) & 0xffffffff)


_PNG_SIG = b'\x89PNG\r\n\x1a\n'
_png_cache = {}


def png_bytes(w, h, rows, text=None):
    ihdr = struct.pack('>IIBBBBB', w, h, 8, 2, 0, 0, 0)
    raw = b''.join(b'\x00' + r for r in rows)
    out = [_PNG_SIG, _chunk(b'IHDR', ihdr)]
    if text is not None:
        out.append(_chunk(b'tEXt', b'verif\x00' + text))
    out.append(_chunk(b'IDAT', zlib.compress(raw, 6)))
    out.append(_chunk(b'IEND', b''))
    return b''.join(out)


def payload(spec, w=8, h=8):
    """spec: {'tok': int, 'size': approx bytes}  |  {'color': [r, g, b]}"""
    key = (repr(sorted(spec.items())), w, h)
    r = _png_cache.get(key)
    if r is not None:
        return r
    if 'color' in spec:
        c = bytes(spec['color'])
        rows = [c * w for _ in range(h)]
        r = png_bytes(w, h, rows)
    else:
        tok = spec['tok']
        seed = hashlib.sha256(b'tok%d' % tok).digest()
        px = bytearray()
        while len(px) < w * h * 3:
            px.extend(seed)
            seed = hashlib.sha256(seed).digest()
        px = bytes(px[:w * h * 3])
        # make sure it is not single-colour
        if len(set(px[i:i + 3] for i in range(0, len(px), 3))) < 2:
            px = b'\x00\x00\x00' + px[3:-3] + b'\xff\xff\xff'
        rows = [px[i * w * 3:(i + 1) * w * 3] for i in range(h)]
        base = png_bytes(w, h, rows, text=b'tok=%d;' % tok)
        want = spec.get('size', 0)
        if want > len(base):
            fill = (b'tok=%d;' % tok)
            pad = want - len(base)
            filler = (fill * (pad // len(fill) + 1))[:pad]
            r = png_bytes(w, h, rows, text=b'tok=%d;' % tok + filler)
        else:
            r = base
    if len(_png_cache) > 4000:
        _png_cache.clear()
    if len(r) < 50000:
        _png_cache[key] = r
    return r


def describe(data):
    """short human-readable identity of a byte string read back from a cache"""
    if data is None:
        return None
    i = data.find(b'tok=')
    if i >= 0:
        j = data.find(b';', i)
        return 'tok%s/%dB' % (data[i + 4:j].decode('ascii', 'replace'), len(data))
    return 'sha:%s/%dB' % (hashlib.sha1(data).hexdigest()[:8], len(data))


def is_single_color(spec):
    return 'color' in spec


# ----------------------------------------------------------------------
def make_tile(coord, data=None):
    from mapproxy.cache.tile import Tile
    from mapproxy.image import ImageSource
    t = Tile(tuple(coord))
    if data is not None:
        t.source = ImageSource(BytesIO(data))
    return t


def read_tile_bytes(t):
    """bytes of a loaded tile (None if it has no source)"""
    if t.source is None:
        return None
    buf = t.source.as_buffer()
    try:
        buf.seek(0)
    except Exception:
        pass
    data = buf.read()
    try:
        t.source.close_buffers()
    except Exception:
        pass
    return data


SQLITE_TIMEOUT = 0.3     # seconds a second connection waits for a locked database (real time: sqlite is outside the simulator)


def make_cache(b, cache_dir=CACHE_DIR, sqlite_timeout=None):
    """b: backend description dict"""
    typ = b['type']
    SQLITE_TIMEOUT = sqlite_timeout if sqlite_timeout is not None else globals()['SQLITE_TIMEOUT']
    if typ == 'file':
        from mapproxy.cache.file import FileCache
        return FileCache(cache_dir, 'png', directory_layout=b.get('layout', 'tc'),
                         link_single_color_images=b.get('link') or False,
                         file_permissions=b.get('perm'), directory_permissions=b.get('dperm'))
    if typ == 'compact':
        from mapproxy.cache.compact import CompactCacheV1, CompactCacheV2
        cls = CompactCacheV1 if b['version'] == 1 else CompactCacheV2
        return cls(cache_dir, file_permissions=b.get('perm'), directory_permissions=b.get('dperm'))
    if typ == 'mbtiles':
        from mapproxy.cache.mbtiles import MBTilesCache
        return MBTilesCache(cache_dir + '/c.mbtiles', timeout=SQLITE_TIMEOUT)
    if typ == 'sqlite':
        from mapproxy.cache.mbtiles import MBTilesLevelCache
        return MBTilesLevelCache(cache_dir + '/sqlite', timeout=SQLITE_TIMEOUT)
    if typ == 'geopackage':
        from mapproxy.cache.geopackage import GeopackageCache
        return GeopackageCache(cache_dir + '/c.gpkg', b['grid'], 'tiles', timeout=SQLITE_TIMEOUT)
    if typ == 'geopackage_level':
        from mapproxy.cache.geopackage import GeopackageLevelCache
        return GeopackageLevelCache(cache_dir + '/gpkg', b['grid'], 'tiles', timeout=SQLITE_TIMEOUT)
    raise ValueError(typ)


def backend_name(b):
    if b['type'] == 'file':
        return 'file-%s%s' % (b.get('layout', 'tc'), ('-' + b['link']) if b.get('link') else '')
    if b['type'] == 'compact':
        return 'compact-v%d' % b['version']
    return b['type']


def _canon(o):
    if isinstance(o, (set, frozenset)):
        return sorted(_canon(x) for x in o)
    if isinstance(o, bytes):
        return 'b:' + hashlib.sha1(o).hexdigest()[:12]
    return repr(o)


def digest_of(*parts):
    """order-insensitive for dict keys (a replay file is JSON with sorted keys)"""
    import json
    h = hashlib.sha1()
    for p in parts:
        h.update(json.dumps(p, sort_keys=True, default=_canon).encode())
    return h.hexdigest()[:16]


def import_seeder_threaded():
    """mapproxy.seed.seeder picks thread- or process-based workers from sys.platform at import time.
    Import it once under sys.platform='darwin' (every dependency imported beforehand under the real
    platform), so that the repository's own thread flavour (an existing seam) is what the simulator runs."""
    import sys
    mod = sys.modules.get('mapproxy.seed.seeder')
    if mod is not None:
        import threading
        if mod.proc_class is not threading.Thread:
            raise RuntimeError('mapproxy.seed.seeder was imported before import_seeder_threaded()')
        return mod
    import queue  # noqa
    import threading  # noqa
    import multiprocessing  # noqa
    import mapproxy.config  # noqa
    import mapproxy.grid  # noqa
    import mapproxy.source  # noqa
    import mapproxy.util.lock  # noqa
    import mapproxy.seed.util  # noqa
    import mapproxy.seed.cachelock  # noqa
    import mapproxy.cache.base  # noqa
    import mapproxy.cache.tile  # noqa
    real = sys.platform
    sys.platform = 'darwin'
    try:
        import mapproxy.seed.seeder as seeder
    finally:
        sys.platform = real
    import mapproxy.cache.base as cb
    assert seeder.proc_class is threading.Thread and cb.REMOVE_ON_UNLOCK is True
    return seeder


# ---------------------------------------------------------------------------------------------------------------
# time zones and HTTP dates (written out here: the checks must not use mapproxy.util.times as their own yardstick)
# POSIX TZ strings: fixed offsets, and one zone with a daylight-saving rule under which summer time is in force during the
# whole simulated period (it starts on 2023-11-14 and the next switch is months away)
TIMEZONES = ['UTC', 'UTC', 'EAST-3', 'WEST5', 'IST-5:30', 'PST8', 'AEST-10AEDT,M10.1.0,M4.1.0/3']


class local_timezone(object):
    """run a case as a process whose local time zone is `tz` (the drivers run with TZ=UTC otherwise)"""

    def __init__(self, tz):
        self.tz = tz or 'UTC'

    def __enter__(self):
        import time
        self.old = os.environ.get('TZ')
        os.environ['TZ'] = self.tz
        time.tzset()
        return self

    def __exit__(self, *exc):
        import time
        if self.old is None:
            os.environ.pop('TZ', None)
        else:
            os.environ['TZ'] = self.old
        time.tzset()
        return False


def iso_local(ts):
    """ISO time string, in the local time zone (what a user writes into seed.yaml)"""
    import time
    return time.strftime('%Y-%m-%dT%H:%M:%S', time.localtime(ts))


_DAYS = ['Mon', 'Tue', 'Wed', 'Thu', 'Fri', 'Sat', 'Sun']
_LONGDAYS = ['Monday', 'Tuesday', 'Wednesday', 'Thursday', 'Friday', 'Saturday', 'Sunday']
_MONTHS = ['Jan', 'Feb', 'Mar', 'Apr', 'May', 'Jun', 'Jul', 'Aug', 'Sep', 'Oct', 'Nov', 'Dec']


def http_date(ts, form='imf'):
    """the three HTTP-date spellings of RFC 7231 (all of them are GMT by definition)"""
    import time
    g = time.gmtime(int(ts))
    if form == 'rfc850':
        return '%s, %02d-%s-%02d %02d:%02d:%02d GMT' % (_LONGDAYS[g.tm_wday], g.tm_mday, _MONTHS[g.tm_mon - 1], g.tm_year % 100,
                                                        g.tm_hour, g.tm_min, g.tm_sec)
    if form == 'asctime':
        return '%s %s %2d %02d:%02d:%02d %d' % (_DAYS[g.tm_wday], _MONTHS[g.tm_mon - 1], g.tm_mday, g.tm_hour, g.tm_min, g.tm_sec,
                                                g.tm_year)
    return '%s, %02d %s %04d %02d:%02d:%02d GMT' % (_DAYS[g.tm_wday], g.tm_mday, _MONTHS[g.tm_mon - 1], g.tm_year,
                                                    g.tm_hour, g.tm_min, g.tm_sec)


def parse_imf_date(s):
    """epoch seconds of an IMF-fixdate ('Sun, 06 Nov 1994 08:49:37 GMT'), None if it is not one"""
    import calendar
    import re
    m = re.match(r'^(\w{3}), (\d{2}) (\w{3}) (\d{4}) (\d{2}):(\d{2}):(\d{2}) GMT$', s or '')
    if not m or m.group(3) not in _MONTHS:
        return None
    return calendar.timegm((int(m.group(4)), _MONTHS.index(m.group(3)) + 1, int(m.group(2)), int(m.group(5)), int(m.group(6)),
                            int(m.group(7)), 0, 0, 0))


def datetime_module(clock):
    """stand-in for the `datetime` module inside a mapproxy module: everything is the real thing, except that
    datetime.now()/utcnow()/today() read the simulated clock (in the process's local time zone, or in `tz`)"""
    import datetime as real_dt

    class _AnyDateTime(type):
        # isinstance(x, datetime.datetime) inside the patched module must stay true for ordinary datetime objects
        # (e.g. what the YAML loader makes of an unquoted timestamp)
        def __instancecheck__(cls, obj):
            return isinstance(obj, real_dt.datetime)

    class _AnyDate(type):
        def __instancecheck__(cls, obj):
            return isinstance(obj, real_dt.date)

    class SimDateTime(real_dt.datetime, metaclass=_AnyDateTime):
        @classmethod
        def now(cls, tz=None):
            return cls.fromtimestamp(clock.time(), tz)

        @classmethod
        def utcnow(cls):
            return cls.fromtimestamp(clock.time(), real_dt.timezone.utc).replace(tzinfo=None)

        @classmethod
        def today(cls):
            return cls.fromtimestamp(clock.time())

    class SimDate(real_dt.date, metaclass=_AnyDate):
        @classmethod
        def today(cls):
            return cls.fromtimestamp(clock.time())

    class Shim(object):
        datetime = SimDateTime
        date = SimDate

        def __getattr__(self, name):
            return getattr(real_dt, name)
    return Shim()
