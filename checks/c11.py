"""C11 - seeding creates every selected tile, nothing else, and survives interruption.

System: the real seed() / seed_task() / TileWalker / SeedProgress / ProgressLog / ProgressStore
(progress file on SimFS, cadence driven by the simulated clock); tasks built from config dicts by
the real SeedingConfiguration against a ProxyConfiguration from the real loader.  The worker pool
is replaced by a recording pool through the seeder's own `TileWorkerPool` name (the observation
point the property names: "tiles handed to the worker pool"); each hand-off costs seeded
simulated work time.  Interruptions: KeyboardInterrupt-like exception or hard kill at a seeded
hand-off, at a seeded line event inside seeder.py / seed/util.py / util/fs.py (sys.settrace), or
inside the progress file write; 1-3 per run, each followed by a restart from the saved progress.
"""
import copy
import io
import math
import os
import sys
import types

sys.path.insert(0, os.path.dirname(os.path.dirname(os.path.abspath(__file__))))

from simkit.world import World  # noqa: E402
from simkit.sched import SimCrash  # noqa: E402
from checks import common as C  # noqa: E402
from checks import fullstack as F  # noqa: E402

PROP = 'C11'
LEVEL = 'exploration'
VERSION = 1
BUDGET = {'quick': 50, 'thorough': 600}
CHUNK = {'quick': 8, 'thorough': 16}
RULE = ('one case = one seeded seed task (grid: factor 2 / sqrt2 / custom resolution list / resolutions with near-coincident tile borders, square or non-square extent, ll or '
        'ul origin; level subset as list / range / open or zero-ended range / beyond the last level / by resolution; coverage: none / bbox / concave polygon / multi-polygon / edge-hugging bbox / exactly one coarse tile / two coverages, in the grid SRS or spelled in EPSG:4326; meta size 1-3; progress cadence; '
        'per-hand-off simulated work time; with two caches optionally another seeder holding the cache lock of one of them for a while) run once uninterrupted and once with 1-3 seeded interruptions (exception or hard '
        'kill at a hand-off, at a line event of the seeding code, or inside the progress-file write) each followed by a '
        'restart from the saved progress; non-trivial = the interrupted run resumed from a non-empty progress file and '
        'skipped at least one subtree; distinct = distinct (task, interruption points) hash')
COMPONENTS = {
    'real': ['mapproxy.seed.seeder.seed/seed_task/TileWalker/SeedProgress', 'mapproxy.seed.util.ProgressLog/ProgressStore',
             'mapproxy.util.fs.write_atomic', 'mapproxy.seed.config.SeedingConfiguration/SeedConfiguration',
             'mapproxy.config.loader.ProxyConfiguration', 'mapproxy.grid.TileGrid/MetaGrid', 'mapproxy.util.coverage + shapely'],
    'stub': ['worker pool (recording pool in place of TileWorkerPool: the hand-off is the observation point)', 'cache locker (stand-in for mapproxy.seed.cachelock.CacheLocker: another seeder holds one cache for a seeded simulated time)',
             'clock', 'file system for the progress file and the (empty) cache (SimFS)'],
}
ASSUMPTIONS = [
    'completeness/minimality are judged with a one-pixel tolerance at the coverage border (mapproxy\'s grid arithmetic is '
    'tolerant by design): meta tiles the coverage enters by less than a pixel are unspecified',
    'with skip_geoms_for_last_levels > 0 tiles outside the coverage are allowed on the affected levels (documented option)',
    'resumption is judged at the hand-off: tiles handed to the pool before the interruption count as done',
]

H = 20037508.342789244


def gen(t, tier):
    gk = t.weighted([('global2', 3), ('sqrt2', 2), ('custom', 3), ('local2', 2), ('near', 1)])
    if gk == 'global2':
        grid = {'srs': 'EPSG:3857', 'tile_size': [64, 64], 'num_levels': t.randint(3, 5), 'origin': t.pick(['ll', 'ul'])}
    elif gk == 'sqrt2':
        grid = {'srs': 'EPSG:3857', 'tile_size': [64, 64], 'res_factor': 'sqrt2', 'num_levels': t.randint(4, 7),
                'origin': t.pick(['ll', 'ul'])}
    elif gk == 'near':
        # resolutions chosen so that a tile border of level 1 lies a little more than one pixel of the LAST level, but less than
        # a tenth of a level-1 pixel, inside a level-0 tile: three level-1 tiles fall short of one level-0 tile by d
        ts = 32
        m = t.pick([3, 5])
        k = t.pick([1.2, 1.5])
        res1 = 32000.0 / (ts * m + k / 16.0)
        grid = {'srs': 'EPSG:3857', 'tile_size': [ts, ts], 'bbox': [1000000, 6000000, 1064000, 6032000],
                'res': [1000.0, res1, res1 / 2, res1 / 4, res1 / 8, res1 / 16], 'origin': t.pick(['ll', 'ul'])}
    elif gk == 'custom':
        bbox = [1000000, 6000000, 1000000 + t.pick([100000, 140000, 64000]), 6000000 + t.pick([70000, 100000, 51000])]
        res = sorted(set(t.pick([2000, 1000, 800, 400, 300, 150, 100, 70, 50]) for _ in range(t.randint(2, 5))), reverse=True)
        if len(res) < 2:
            res = [res[0], res[0] / 2.5]
        grid = {'srs': 'EPSG:3857', 'tile_size': [t.pick([32, 50, 64]), t.pick([32, 50, 64])], 'bbox': bbox, 'res': res,
                'origin': t.pick(['ll', 'ul'])}
    else:
        bbox = [-300000, 5000000, 900000, 5700000]
        grid = {'srs': 'EPSG:3857', 'tile_size': [64, 64], 'bbox': bbox, 'num_levels': t.randint(3, 5), 'origin': t.pick(['ll', 'ul'])}
    sc = {'grid': grid, 'gk': gk, 'meta_size': t.pick([[1, 1], [2, 2], [3, 3], [2, 1], [4, 4]]),
          'levels': t.pick(['all', 'all', 'last2', 'first', 'odd', 'range', 'to0', 'from0to0', 'open_to', 'open_from', 'to_big',
                            'list_big', 'res_list', 'res_range']),
          'coverage': t.weighted([('none', 2), ('bbox', 3), ('lshape', 2), ('multi', 2), ('two', 2), ('notch', 2), ('tiny', 1), ('edge', 4), ('tilebox', 3)]),
          'cov_seed': [t.choice(1000), t.choice(1000), t.choice(1000), t.choice(1000)],
          'cov_srs': t.pick(['3857', '3857', '3857', '4326']),
          'caches': t.pick([1, 1, 1, 2]),
          'skip_geoms': t.pick([0, 0, 0, 1, 2]), 'verbose': bool(t.choice(2)),
          'work': t.pick([0.0, 0.01, 0.3, 0.6, 2.0, 31.0]),
          'interrupts': []}
    # the cache's meta_buffer (extra pixels requested around a meta tile) must not widen what counts as "intersects the coverage"
    sc['meta_buffer'] = t.pick([0, 0, 10, 80, 200])
    if sc['caches'] == 2 and t.chance(0.6):
        # --use-cache-lock: another seeding process holds the lock of one of the two caches for a while after each (re)start
        sc['cache_lock'] = {'task': t.choice(2), 'for': t.pick([0.005, 0.5, 5.0, 100.0])}
    if gk == 'near' and t.chance(0.6):
        sc['coverage'] = 'tilebox'
        sc['cov_seed'][0] = 0           # a tile of level 0
        sc['levels'] = t.pick(['all', 'all', 'last2'])
    for _ in range(t.randint(1, 3)):
        kind = t.weighted([('handoff', 3), ('line', 4), ('write', 2), ('running', 3)])
        sc['interrupts'].append({'kind': kind, 'at': t.choice(1000), 'hard': bool(t.choice(2)),
                                 'after': bool(t.choice(2))})
    # the seed entry may name a second grid of the caches first (another projected SRS, seeded too but not judged here): the
    # coverage of every task has to come from the configured coverage, not from the one already transformed for the grid before
    sc['second_grid'] = t.chance(0.3) if gk in ('custom', 'near') else False
    return sc


def shrink(sc):
    if len(sc['interrupts']) > 1:
        for i in range(len(sc['interrupts'])):
            c = copy.deepcopy(sc)
            del c['interrupts'][i]
            yield c
    if sc['coverage'] == 'edge':
        pass
    for key, simple in (('coverage', 'none'), ('cache_lock', None), ('caches', 1), ('cov_srs', '3857'), ('meta_buffer', 0), ('meta_size', [1, 1]), ('levels', 'all'), ('skip_geoms', 0),
                        ('verbose', True)):
        if sc.get(key, simple) != simple:
            c = copy.deepcopy(sc)
            c[key] = simple
            yield c
    g = sc['grid']
    if g.get('num_levels', 0) > 3:
        c = copy.deepcopy(sc)
        c['grid']['num_levels'] -= 1
        yield c
    if 'res' in g and len(g['res']) > 2:
        c = copy.deepcopy(sc)
        c['grid']['res'] = g['res'][:-1]
        yield c
    for i, it in enumerate(sc['interrupts']):
        if it['at'] > 0:
            for a in (0, it['at'] // 2, it['at'] - 1):
                c = copy.deepcopy(sc)
                c['interrupts'][i]['at'] = a
                yield c


class Interrupt(BaseException):
    """stands for KeyboardInterrupt / SIGTERM delivered to the seeding process"""


def _orphan_at_grid_edge(grid, meta, m):
    """is meta tile m = (X, Y, z[+100k]) one whose part inside the grid extent lies beyond the last tile column / row that
    some coarser level of the grid has (its would-be parent is not a tile of the grid)?"""
    X, Y, z = m[0], m[1], m[2] % 100
    x0, y0, x1, y1 = grid.bbox
    tb = grid.tile_bbox((X * meta[0], Y * meta[1], z))
    ul = grid.origin in ('ul', 'nw')
    for p in range(z):
        nx, ny = grid.grid_sizes[p]
        tw, th = grid.tile_size[0] * grid.resolutions[p], grid.tile_size[1] * grid.resolutions[p]
        end_x = x0 + nx * tw
        if tb[0] >= end_x - 1e-6 * tw and end_x < x1:
            return True
        if not ul:
            end_y = y0 + ny * th
            if tb[1] >= end_y - 1e-6 * th and end_y < y1:
                return True
        else:
            end_y = y1 - ny * th
            if tb[3] <= end_y + 1e-6 * th and end_y > y0:
                return True
    return False


class Bad(Exception):
    def __init__(self, kind, msg):
        Exception.__init__(self, msg)
        self.kind = kind
        self.msg = msg


def _to_lonlat(x, y):
    """inverse spherical Mercator, written out here (not via mapproxy.srs / pyproj)"""
    import math
    R = 6378137.0
    return math.degrees(x / R), math.degrees(2 * math.atan(math.exp(y / R)) - math.pi / 2)


def _coverage_geom(sc, gbbox, grid=None):
    """returns (seed-conf coverage dict or None, shapely geometry or None, files to write); with cov_srs 4326 the same
    area is configured in geographic coordinates and mapproxy has to transform it into the grid's SRS"""
    conf, geom, files = _coverage_geom_3857(sc, gbbox, grid)
    if conf is None or sc.get('cov_srs') != '4326' or sc['coverage'] == 'notch':
        return conf, geom, files
    gb = geom.bounds
    if min(gb) < -0.999 * 20037508.342789244 or max(gb) > 0.999 * 20037508.342789244:
        return conf, geom, files        # beyond +-180 degrees the area has no geographic spelling: stays in EPSG:3857
    from shapely.ops import transform
    if '__several__' in conf:
        out = {}
        for k, cf in conf['__several__'].items():
            b = cf['bbox']
            out[k] = {'bbox': list(_to_lonlat(b[0], b[1]) + _to_lonlat(b[2], b[3])), 'srs': 'EPSG:4326'}
        return {'__several__': out}, geom, files
    conf = dict(conf, srs='EPSG:4326')
    if 'bbox' in conf:
        b = conf['bbox']
        conf['bbox'] = list(_to_lonlat(b[0], b[1]) + _to_lonlat(b[2], b[3]))
    else:
        from shapely import wkt
        files = dict((p, ''.join(transform(lambda x, y, z=None: _to_lonlat(x, y), wkt.loads(line)).wkt + '\n'
                                 for line in data.splitlines() if line.strip()))
                     for p, data in files.items())
    return conf, geom, files


def _coverage_geom_3857(sc, gbbox, grid=None):
    from shapely.geometry import box, Polygon, MultiPolygon
    x0, y0, x1, y1 = gbbox
    if sc['coverage'] == 'edge' and grid is not None:
        # a bbox whose upper/right edges end just beyond a tile border of a COARSE level: by a few pixels of the finest
        # level, but by less than a tenth of a coarse pixel
        s0, s1, s2, s3 = sc['cov_seed']
        L = s0 % max(1, grid.levels - 1)
        rL, rf = grid.resolutions[L], grid.resolutions[grid.levels - 1]
        nx, ny = grid.grid_sizes[L]
        tw, th = grid.tile_size[0] * rL, grid.tile_size[1] * rL
        bx = x0 + (1 + s1 % max(1, nx - 1)) * tw if nx > 1 else (x0 + x1) / 2.0
        by = (y0 + (1 + s2 % max(1, ny - 1)) * th if grid.origin not in ('ul', 'nw') else y1 - (1 + s2 % max(1, ny - 1)) * th) \
            if ny > 1 else (y0 + y1) / 2.0
        offs = [1.5 * rf, 3 * rf, rL / 20.0, rL / 12.0, -1.5 * rf]
        ox, oy = offs[s3 % 5], offs[(s3 // 5) % 5]
        bb = [max(x0, bx - 0.3 * (x1 - x0)), max(y0, by - 0.25 * (y1 - y0)), min(x1, bx + ox), min(y1, by + oy)]
        if bb[2] - bb[0] > 4 * rf and bb[3] - bb[1] > 4 * rf:
            return {'bbox': bb, 'srs': 'EPSG:3857'}, box(*bb), {}
    if sc['coverage'] == 'tilebox' and grid is not None:
        # exactly the bbox of one (or 2x1) tile(s) of a coarse level: that tile is completely inside the coverage, its
        # neighbours are not entered at all
        s0, s1, s2, s3 = sc['cov_seed']
        L = s0 % max(1, grid.levels - 1)
        nx, ny = grid.grid_sizes[L]
        i, j = s1 % nx, s2 % ny
        tb = list(grid.tile_bbox((i, j, L)))
        if s3 % 3 == 0 and i + 1 < nx:
            tb[2] = grid.tile_bbox((i + 1, j, L))[2]
        return {'bbox': tb, 'srs': 'EPSG:3857'}, box(*tb), {}
    if sc['coverage'] in ('edge', 'tilebox'):
        sc = dict(sc, coverage='bbox')
    w, h = x1 - x0, y1 - y0
    a, b, c, d = [v / 1000.0 for v in sc['cov_seed']]
    kind = sc['coverage']
    if kind == 'none':
        return None, None, {}
    if kind == 'bbox':
        bx0 = x0 + a * w * 0.8
        by0 = y0 + b * h * 0.8
        bb = [bx0, by0, min(x1 + 0.1 * w, bx0 + (0.05 + c) * w * 0.6), min(y1 + 0.1 * h, by0 + (0.05 + d) * h * 0.6)]
        return {'bbox': bb, 'srs': 'EPSG:3857'}, box(*bb), {}
    if kind == 'tiny':
        bx0 = x0 + a * w * 0.9
        by0 = y0 + b * h * 0.9
        bb = [bx0, by0, bx0 + w * 0.001, by0 + h * 0.001]
        return {'bbox': bb, 'srs': 'EPSG:3857'}, box(*bb), {}
    if kind == 'lshape':
        px, py = x0 + a * w * 0.5, y0 + b * h * 0.5
        sw, sh = (0.2 + c * 0.3) * w, (0.2 + d * 0.3) * h
        poly = Polygon([(px, py), (px + sw, py), (px + sw, py + sh * 0.3), (px + sw * 0.3, py + sh * 0.3),
                        (px + sw * 0.3, py + sh), (px, py + sh)])
        return {'datasource': '/simfs/conf/cov.txt', 'srs': 'EPSG:3857'}, poly, {'/simfs/conf/cov.txt': poly.wkt + '\n'}
    if kind == 'notch':
        # two coverages named by one seed entry: an L-shaped polygon and a box inside the polygon's bounding box but outside
        # the polygon (in the notch of the L)
        px, py = x0 + a * w * 0.5, y0 + b * h * 0.5
        sw, sh = (0.2 + c * 0.3) * w, (0.2 + d * 0.3) * h
        poly = Polygon([(px, py), (px + sw, py), (px + sw, py + sh * 0.3), (px + sw * 0.3, py + sh * 0.3),
                        (px + sw * 0.3, py + sh), (px, py + sh)])
        nb = [px + 0.5 * sw, py + 0.5 * sh, px + 0.9 * sw, py + 0.9 * sh]
        from shapely.ops import unary_union
        return {'__several__': {'cov': {'datasource': '/simfs/conf/cov.txt', 'srs': 'EPSG:3857'},
                                'cov2': {'bbox': nb, 'srs': 'EPSG:3857'}}}, \
            unary_union([poly, box(*nb)]), {'/simfs/conf/cov.txt': poly.wkt + '\n'}
    if kind == 'two':
        # two coverages named by one seed entry (mapproxy joins them into a MultiCoverage)
        b1 = [x0 + a * w * 0.4, y0 + b * h * 0.4, x0 + a * w * 0.4 + 0.15 * w, y0 + b * h * 0.4 + 0.2 * h]
        b2 = [x0 + (0.5 + c * 0.3) * w, y0 + (0.5 + d * 0.3) * h, x0 + (0.5 + c * 0.3) * w + 0.1 * w, y0 + (0.5 + d * 0.3) * h + 0.12 * h]
        from shapely.ops import unary_union
        return {'__several__': {'cov': {'bbox': b1, 'srs': 'EPSG:3857'}, 'cov2': {'bbox': b2, 'srs': 'EPSG:3857'}}}, \
            unary_union([box(*b1), box(*b2)]), {}
    p1 = box(x0 + a * w * 0.4, y0 + b * h * 0.4, x0 + a * w * 0.4 + 0.15 * w, y0 + b * h * 0.4 + 0.2 * h)
    p2 = box(x0 + (0.5 + c * 0.3) * w, y0 + (0.5 + d * 0.3) * h, x0 + (0.5 + c * 0.3) * w + 0.1 * w, y0 + (0.5 + d * 0.3) * h + 0.12 * h)
    from shapely.ops import unary_union
    mp = unary_union([p1, p2])      # the two parts may overlap: the coverage is their union (mapproxy does the same)
    return {'datasource': '/simfs/conf/cov.txt', 'srs': 'EPSG:3857'}, mp, {'/simfs/conf/cov.txt': p1.wkt + '\n' + p2.wkt + '\n'}


def _levels(sc, nlevels, grid=None):
    """(what to put into the seed task's configuration, the levels that selects); a dict with the key 'resolutions' goes
    under that key instead of 'levels'"""
    k = sc['levels']
    if k == 'all':
        return None, list(range(nlevels))
    mid = nlevels // 2
    if k == 'to0':
        return {'to': 0}, [0]
    if k == 'from0to0':
        return {'from': 0, 'to': 0}, [0]
    if k == 'open_to':
        return {'to': mid}, list(range(0, mid + 1))
    if k == 'open_from':
        return {'from': mid}, list(range(mid, nlevels))
    if k == 'to_big':
        return {'from': 1, 'to': 99}, list(range(1, nlevels))
    if k == 'list_big':
        return [0, 99, nlevels - 1], sorted(set([0, nlevels - 1]))
    if k == 'res_list' and grid is not None:
        lv = sorted(set([0, mid]))
        return {'resolutions': [grid.resolutions[l] for l in lv]}, lv
    if k == 'res_range' and grid is not None:
        return {'resolutions': {'from': grid.resolutions[1], 'to': grid.resolutions[mid + 1 if mid + 1 < nlevels else mid]}}, \
            list(range(1, (mid + 1 if mid + 1 < nlevels else mid) + 1))
    if k in ('res_list', 'res_range'):
        return None, list(range(nlevels))
    if k == 'last2':
        lv = list(range(max(0, nlevels - 2), nlevels))
    elif k == 'first':
        lv = [0, min(1, nlevels - 1)]
    elif k == 'odd':
        lv = [l for l in range(nlevels) if l % 2 == 1] or [0]
    else:
        a = nlevels // 3
        return {'from': a, 'to': nlevels - 1}, list(range(a, nlevels))
    lv = sorted(set(lv))
    return lv, lv


def _expected(grid, meta, levels, geom, skip_geoms):
    """brute force over whole levels: (must, allowed) sets of meta tile indices (X, Y, z)"""
    from shapely.geometry import box
    from shapely.prepared import prep
    must, allowed = set(), set()
    x0, y0, x1, y1 = grid.bbox
    ul = grid.origin in ('ul', 'nw')
    pg = prep(geom) if geom is not None else None
    mx, my = meta
    pg_in = None
    if geom is not None:
        # only the part of the coverage inside the grid extent (shrunk by a pixel of the finest level) can demand tiles
        fr = min(grid.resolutions[z] for z in levels)
        inside = geom.intersection(box(x0 + fr, y0 + fr, x1 - fr, y1 - fr))
        pg_in = prep(inside) if not inside.is_empty else None
    for idx, z in enumerate(levels):
        res = grid.resolutions[z]
        nx, ny = grid.grid_sizes[z]
        tw, th = grid.tile_size[0] * res, grid.tile_size[1] * res
        relaxed = skip_geoms > 0 and (len(levels) - idx) <= skip_geoms    # "do not filter in last levels"
        for X in range(int(math.ceil(nx / float(mx)))):
            for Y in range(int(math.ceil(ny / float(my)))):
                tx0, tx1 = X * mx, min((X + 1) * mx, nx)
                ty0, ty1 = Y * my, min((Y + 1) * my, ny)
                bx0, bx1 = x0 + tx0 * tw, x0 + tx1 * tw
                if ul:
                    by1, by0 = y1 - ty0 * th, y1 - ty1 * th
                else:
                    by0, by1 = y0 + ty0 * th, y0 + ty1 * th
                if geom is None:
                    must.add((X, Y, z))
                    allowed.add((X, Y, z))
                    continue
                outer = box(bx0 - res, by0 - res, bx1 + res, by1 + res)
                if bx1 - bx0 > 2 * res and by1 - by0 > 2 * res and pg_in is not None:
                    # demanded: the coverage reaches at least one pixel OF THE FINEST SELECTED LEVEL into the meta tile
                    inner = box(bx0 + fr, by0 + fr, bx1 - fr, by1 - fr)
                    if pg_in.intersects(inner):
                        must.add((X, Y, z))
                if relaxed or pg.intersects(outer):
                    allowed.add((X, Y, z))
    return must, allowed

class _OtherSeederHoldsLock(object):
    """stands in for mapproxy.seed.cachelock.CacheLocker (an SQLite table shared by the seeding processes): another process
    holds the lock of some caches until a given simulated time; every attempt costs a little time, as a transaction would"""

    def __init__(self, clock, held, probes):
        self.clock = clock
        self.held = held
        self.probes = probes

    def lock(self, cache_name, no_block=False):
        import contextlib
        from mapproxy.seed.cachelock import CacheLockedError
        locker = self

        @contextlib.contextmanager
        def cm():
            locker.clock.now += 0.01
            until = locker.held.get(cache_name)
            if until is not None and locker.clock.now < until:
                if no_block:
                    locker.probes['cache_locked_by_other_seeder'] = locker.probes.get('cache_locked_by_other_seeder', 0) + 1
                    raise CacheLockedError()
                locker.probes['waited_for_cache_lock'] = locker.probes.get('waited_for_cache_lock', 0) + 1
                locker.clock.now = until
            yield
        return cm()



def run(sc, tape):
    seeder = C.import_seeder_threaded()
    from mapproxy.seed.config import SeedingConfiguration
    from mapproxy.seed.util import ProgressLog, ProgressStore
    from mapproxy.seed.seeder import seed

    w = World(tape, with_sched=False)
    clock = w.clock
    PROGRESS = '/simfs/seed/progress.pickle'
    handed = []
    state = {'handoffs': 0, 'interrupt_at_handoff': None, 'after': False, 'hard': False, 'dead': False,
             'line_target': None, 'lines': 0, 'write_target': None, 'writes': 0, 'fired': None}

    class RecordingPool(object):
        def __init__(self, task, worker_class, size=2, dry_run=False, progress_logger=None):
            self.task = task
            self.progress_logger = progress_logger

        def process(self, tiles, progress):
            if state['dead']:
                raise SimCrash()
            n = state['handoffs']
            state['handoffs'] += 1
            if state['interrupt_at_handoff'] == n and not state['after']:
                _fire('handoff-before')
            # a seed entry may name several caches (one task each): the hand-off is recorded per cache, told apart by the
            # storage the task's tile manager writes to; the cache index is carried in the hundreds of the level
            k = 1 if '/c2_' in getattr(self.task.tile_manager.cache, 'cache_dir', '') else 0
            if self.task.md.get('grid_name') != 'g0':
                for t in tiles:
                    handed.append((t[0], t[1], t[2] + 100 * k))
            clock.now += sc['work']
            if self.progress_logger:
                self.progress_logger.log_step(progress)
            if state['interrupt_at_handoff'] == n and state['after']:
                _fire('handoff-after')

        def stop(self, force=False):
            pass

    def _fire(where):
        state['fired'] = where
        state['interrupt_at_handoff'] = None
        state['line_target'] = None
        state['write_target'] = None
        if state['hard']:
            state['dead'] = True
            w.main_proc.dead = True      # every later file-system call of the dead process is refused
        raise Interrupt(where)

    def fs_hook(op, key, proc):
        if state['write_target'] is not None and isinstance(key, (str, tuple)) and 'progress' in str(key) and \
                op in ('open', 'write', 'rename', 'close', 'unlink'):
            n = state['writes']
            state['writes'] += 1
            if n == state['write_target']:
                _fire('progress-write:' + op)
        return None
    w.fs.fault_hook = fs_hook
    w.extra_patches.append((seeder, 'TileWorkerPool', RecordingPool))

    # the public stop hook of the walker: an embedding application makes SeedProgress.running() return False
    def running(self):
        if state.get('running_target') is not None:
            n = state['running_calls']
            state['running_calls'] += 1
            if n >= state['running_target']:
                state['fired'] = 'running'
                return False
        return True
    w.extra_patches.append((seeder.SeedProgress, 'running', running))

    traced = ('/mapproxy/seed/seeder.py', '/mapproxy/seed/util.py', '/mapproxy/util/fs.py')

    def tracer(frame, event, arg):
        fn = frame.f_code.co_filename
        if not fn.endswith(traced):
            return None

        def local(frame, event, arg):
            if event == 'line' and state['line_target'] is not None:
                n = state['lines']
                state['lines'] += 1
                if n == state['line_target']:
                    _fire('line:%s:%d' % (os.path.basename(frame.f_code.co_filename), frame.f_lineno))
            return local
        return local

    probes = {}
    v = None
    info = {}
    try:
        with w:
            conf = F.base_conf({'type': 'file', 'directory_layout': 'tc'}, meta_size=sc['meta_size'])
            conf['caches']['c1']['meta_buffer'] = sc.get('meta_buffer', 0)
            conf['grids']['g'] = dict(sc['grid'])
            if sc.get('second_grid'):
                conf['grids']['g0'] = {'srs': 'EPSG:25833', 'tile_size': [64, 64], 'bbox': [0, 5200000, 200000, 5400000],
                                       'res': [2000, 1000, 500, 400, 300, 200], 'origin': 'll'}
                conf['caches']['c1']['grids'] = ['g', 'g0']
                probes['seed_entry_with_two_grids'] = 1
            conf['caches']['c2'] = copy.deepcopy(conf['caches']['c1'])
            pc = F.make_conf(conf)
            grid = pc.grids['g'].tile_grid()
            cov_conf, geom, files = _coverage_geom(sc, grid.bbox, grid)
            os.makedirs('/simfs/conf')
            os.makedirs('/simfs/seed')
            for p, text in files.items():
                with open(p, 'w') as f:
                    f.write(text)
            lv_conf, levels = _levels(sc, grid.levels, grid)
            ncaches = sc.get('caches', 1)
            sconf = {'caches': ['c1', 'c2'][:ncaches], 'grids': ['g0', 'g'] if sc.get('second_grid') else ['g']}
            if isinstance(lv_conf, dict) and 'resolutions' in lv_conf:
                sconf['resolutions'] = lv_conf['resolutions']
            elif lv_conf is not None:
                sconf['levels'] = lv_conf
            seed_conf = {'seeds': {'s': sconf}}
            if cov_conf is not None and '__several__' in cov_conf:
                seed_conf['coverages'] = cov_conf['__several__']
                sconf['coverages'] = sorted(cov_conf['__several__'])
            elif cov_conf is not None:
                seed_conf['coverages'] = {'cov': cov_conf}
                sconf['coverages'] = ['cov']

            def tasks():
                return SeedingConfiguration(seed_conf, mapproxy_conf=pc).seeds()

            def one_segment(continue_seed):
                store = ProgressStore(PROGRESS, continue_seed=continue_seed)
                logger = ProgressLog(out=io.StringIO(), silent=True, verbose=sc['verbose'], progress_store=store)
                info['resumed_from'] = copy.deepcopy(store.status)
                out = io.StringIO()
                import contextlib
                with contextlib.redirect_stdout(out):
                    tasks_ = tasks()
                    locker = None
                    if sc.get('cache_lock') and len(tasks_) > 1:
                        held = {tasks_[sc['cache_lock']['task'] % len(tasks_)].md['cache_name']: clock.now + sc['cache_lock']['for']}
                        locker = _OtherSeederHoldsLock(clock, held, probes)
                    seed(tasks_, concurrency=1, dry_run=False, skip_geoms_for_last_levels=sc['skip_geoms'],
                         progress_logger=logger, cache_locker=locker)

            # 1. uninterrupted run
            one_segment(False)
            U = list(handed)
            total_handoffs = state['handoffs']
            mx, my = sc['meta_size']

            def mkey(c):
                return (c[0] // mx, c[1] // my, c[2])
            Uset = set(mkey(c) for c in U)
            must, allowed = _expected(grid, sc['meta_size'], levels, geom, sc['skip_geoms'])
            if ncaches > 1:
                # every cache of the seed entry is a task of its own with the same selection
                must = set((X, Y, z + 100 * k) for (X, Y, z) in must for k in range(ncaches))
                allowed = set((X, Y, z + 100 * k) for (X, Y, z) in allowed for k in range(ncaches))
            missing = sorted(must - Uset)
            extra = sorted(Uset - allowed)
            probes['handed'] = len(U)
            probes['duplicates_handed'] = len(U) - len(set(U))
            if missing:
                if all(_orphan_at_grid_edge(grid, sc['meta_size'], m) for m in missing):
                    # a specific, listed finding (see known_findings.json): reported under its own signature
                    raise Bad('incomplete-edge-sliver-orphans', 'uninterrupted seeding never handed meta tile(s) %s to the pool '
                              '(%d expected, %d handed): each of them is a tile at the right/top edge of the grid that reaches into the '
                              'grid extent by little more than a pixel while the tile of a coarser level above that strip is not part '
                              'of the grid (TileGrid.grid_sizes drops slivers below a tolerance level by level), so the walker never '
                              'descends there; grid %s levels %s coverage %s' % (
                                  missing[:5], len(must), len(Uset), sc['grid'], levels, sc['coverage']))
                raise Bad('incomplete', 'uninterrupted seeding never handed meta tile(s) %s to the pool (%d expected, %d handed); '
                          'grid %s levels %s coverage %s' % (missing[:5], len(must), len(Uset), sc['gk'], levels, sc['coverage']))
            if extra:
                raise Bad('not-minimal', 'seeding handed meta tile(s) %s whose meta tile lies outside the coverage; grid %s levels %s '
                          'coverage %s' % (extra[:5], sc['gk'], levels, sc['coverage']))
            wrong_level = sorted(set(c[2] % 100 for c in U) - set(levels))
            if wrong_level:
                raise Bad('wrong-level', 'tiles of levels %s were handed, selected levels are %s' % (wrong_level, levels))
            info['unspecified'] = len(allowed - must)

            # count line events of an uninterrupted walk (to place line interruptions inside it)
            if w.fs.exists(PROGRESS):
                w.fs.unlink(PROGRESS)
            del handed[:]
            state['handoffs'] = 0
            state['lines'] = 0
            state['line_target'] = -1
            state['running_target'] = 1 << 60
            state['running_calls'] = 0
            sys.settrace(tracer)
            try:
                one_segment(False)
            finally:
                sys.settrace(None)
            total_lines = state['lines']
            total_running = state['running_calls']
            state['running_target'] = None
            total_writes = None

            # 2. interrupted and continued run
            if w.fs.exists(PROGRESS):
                w.fs.unlink(PROGRESS)
            del handed[:]
            Hall = set()
            skipped_something = False
            segs = []
            for it in sc['interrupts'] + [None]:
                state.update({'handoffs': 0, 'lines': 0, 'writes': 0, 'interrupt_at_handoff': None, 'line_target': None,
                              'write_target': None, 'fired': None, 'dead': False, 'running_target': None, 'running_calls': 0})
                w.main_proc.dead = False
                if it is not None:
                    state['hard'] = it['hard']
                    state['after'] = it['after']
                    if it['kind'] == 'handoff':
                        state['interrupt_at_handoff'] = it['at'] % max(1, total_handoffs)
                    elif it['kind'] == 'line':
                        state['line_target'] = it['at'] * max(1, total_lines) // 1000
                    elif it['kind'] == 'running':
                        state['running_target'] = it['at'] * max(1, total_running) // 1000
                    else:
                        state['write_target'] = it['at'] % 12
                seg_start = len(handed)
                if it is not None and it['kind'] == 'line':
                    sys.settrace(tracer)
                try:
                    one_segment(True)
                    finished = True
                except Interrupt:
                    finished = False
                except SimCrash:
                    finished = False
                finally:
                    sys.settrace(None)
                w.main_proc.dead = False
                state['dead'] = False
                state['interrupt_at_handoff'] = state['line_target'] = state['write_target'] = None
                state['running_target'] = None
                seg = handed[seg_start:]
                Hall.update(mkey(c) for c in seg)
                segs.append({'interrupt': it, 'fired': state['fired'], 'handed': len(seg), 'finished': finished,
                             'resumed_from': bool(info.get('resumed_from'))})
                if info.get('resumed_from') and len(seg) < len(U):
                    skipped_something = True
                # the progress file must always be loadable after a crash
                try:
                    st = ProgressStore(PROGRESS, continue_seed=True)
                    st.status.items()
                except Exception as ex:
                    raise Bad('progress-file-unreadable', 'after interruption %r the progress file cannot be loaded: %r' % (it, ex))
                if finished and it is not None:
                    # the interruption point lay beyond the end of this segment: the task completed, progress is final
                    pass
            lost = sorted(Uset - Hall)
            info['segments'] = segs
            if lost:
                raise Bad('resume-loses-tiles', 'after interruptions %s and restarts from the saved progress, meta tile(s) %s that an '
                          'uninterrupted run seeds were never handed to the pool (%d of %d missing)' % (
                              [(s['fired'], s['handed']) for s in segs], lost[:6], len(lost), len(Uset)))
            probes['interruptions_fired'] = sum(1 for s in segs if s['fired'])
            probes['resumed_with_progress'] = sum(1 for s in segs if s['resumed_from'])
            info['skipped'] = skipped_something
    except Bad as b:
        v = {'sig': 'C11:%s:%s' % (b.kind, sc['gk']), 'msg': b.msg}
        if b.kind == 'incomplete-edge-sliver-orphans':
            v['sig'] = 'C11:incomplete:edge-sliver-orphans'
    except Exception as ex:
        import traceback
        tb = traceback.extract_tb(ex.__traceback__)
        if any('/mapproxy/' in f.filename for f in tb[-3:]):
            v = {'sig': 'C11:seed-raises:%s:%s' % (type(ex).__name__, sc['gk']),
                 'msg': 'the seed task did not run to completion, it raised %r\n%s' % (
                     ex, ''.join(traceback.format_list(tb[-4:])))}
        else:
            raise
    faults = {}
    for s in info.get('segments', []):
        if s['fired']:
            k = 'interrupt_' + s['fired'].split(':')[0] + ('_hard_kill' if s['interrupt'] and s['interrupt']['hard'] else '_exception')
            faults[k] = faults.get(k, 0) + 1
    return {'violation': v, 'digest': C.digest_of(sc, w.fs.op_count, round(clock.now, 6), len(handed), info.get('segments')), 'nontrivial': bool(info.get('skipped')), 'steps': probes.get('handed', 0),
            'sim_time': clock.now - 1.7e9, 'faults': faults, 'probes': probes, 'unspecified': info.get('unspecified', 0),
            'sample': {'grid': sc['gk'], 'levels': sc['levels'], 'coverage': sc['coverage'] + ('@4326' if sc.get('cov_srs') == '4326' else ''), 'meta': sc['meta_size'],
                       'handed_uninterrupted': probes.get('handed'),
                       'segments': [{'fired': s['fired'], 'handed': s['handed'], 'resumed': s['resumed_from']}
                                    for s in info.get('segments', [])]}}


if __name__ == '__main__':
    import checks.c11 as me
    from simkit import driver
    driver.main(me)
