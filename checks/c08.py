"""C08 - concurrent requests for one uncached tile: all correct, one upstream fetch.

System: the real TileManager / TileCreator / TileLocker / cache backend on SimFS, 2-6 client
tasks in 1-3 simulated processes (threads of one process share a TileManager; processes have
their own but share the cache and lock directories), a position-and-generation encoding stub
source with seeded latency.  Schedules at the granularity of cache reads, lock operations,
upstream calls and cache writes.
"""
import copy
import os
import sys

sys.path.insert(0, os.path.dirname(os.path.dirname(os.path.abspath(__file__))))

from simkit.world import World, _REAL  # noqa: E402
from simkit.sched import SimAbort, SimCrash  # noqa: E402
from checks import common as C  # noqa: E402
from checks import upstream as U  # noqa: E402
from checks import bundleparse as BP  # noqa: E402

PROP = 'C08'
LEVEL = 'exploration'
VERSION = 1
BUDGET = {'quick': 80, 'thorough': 600}
CHUNK = {'quick': 25, 'thorough': 50}
RULE = ('one case = one seeded deployment (backend, meta size/buffer, minimize_meta_requests, bulk_meta_tiles, '
        'concurrent_tile_creators, 1-3 processes x 1-3 client threads, 1-2 requests each for the same tile / tiles of one '
        'meta tile / neighbouring meta tiles / the same bundle) in one of the modes plain, stalled-holder, upstream-failure, '
        'process-kill, under one seeded schedule (and, rarely, a lock-identity case: two separately started interpreters with '
        'different hash seeds must give the tile, meta tile and bundle locks the same file names); non-trivial = at least two client tasks needed the same meta tile while it '
        'was uncached and overlapped in time (one waited for the lock or re-checked under it); distinct = distinct hash of '
        'the scheduler event log')
COMPONENTS = {
    'real': ['mapproxy.cache.tile.TileManager/TileCreator/split_meta_tiles', 'mapproxy.cache.base.TileLocker',
             'mapproxy.util.lock.FileLock + lockfile + cleanup_lockdir', 'mapproxy.cache.file.FileCache',
             'mapproxy.cache.compact v1/v2', 'mapproxy.grid.MetaGrid/TileGrid', 'mapproxy.util.async_ ThreadPool (real threads)',
             'PIL encode/decode', 'mapproxy.cache.mbtiles MBTilesCache / MBTilesLevelCache on the real SQLite library (tmpfs file)'],
    'stub': ['sqlite3 module as seen by mapproxy.cache.mbtiles (checks/simsql.py: every call is a pre-emption point, busy waits run '
             'in simulated time; the SQL itself is executed by the real library)', 'upstream source (position+generation encoding SimSource at the TileManager `sources` seam)',
             'file system + flock (SimFS)', 'clock', 'scheduler choice', 'queue.Queue (SimQueue)'],
    'outside_the_seams': ['lock-identity cases: two real python subprocesses with different PYTHONHASHSEED (no simulator inside)'],
}
ASSUMPTIONS = [
    'lock-identity case: the two interpreters are real subprocesses (fresh python, PYTHONHASHSEED differs); everything else runs '
    'as simulated processes inside one interpreter, which therefore share hash(), id() and module state',
    '"exactly the correct tiles" = no incorrect tile, no tile outside the grid, and every served cacheable tile present; extra '
    'correct tiles of the same meta tile are expected',
    'one fetch per meta tile is asserted in the fault-free modes; with upstream failures at most one SUCCESSFUL fetch per meta '
    'tile; with a killed process the fetches of the killed process are not counted',
    'independence is asserted in simulated time: a request for another meta tile completes while the holder is stalled',
    'SQLite backends: requests run inside TileManager.session() (cache.cleanup() at the end, as the services do); no process '
    'kills (connections of a killed simulated process would stay open inside the one interpreter)',
]

BACKENDS = [({'type': 'file', 'layout': 'tc'}, 3), ({'type': 'file', 'layout': 'tc', 'link': 'symlink'}, 2),
            ({'type': 'file', 'layout': 'tms', 'link': 'hardlink'}, 1), ({'type': 'file', 'layout': 'tms'}, 1), ({'type': 'file', 'layout': 'quadkey'}, 1),
            ({'type': 'file', 'layout': 'arcgis'}, 1), ({'type': 'compact', 'version': 1}, 3), ({'type': 'compact', 'version': 2}, 3)]
# SQLite backends: the database is the real library on a tmpfs file, its calls are pre-emption points and its busy waits run in
# simulated time (checks/simsql.py); TileManager-level runs without process kills only
SQL_BACKENDS = [({'type': 'mbtiles'}, 2), ({'type': 'sqlite'}, 2), ({'type': 'geopackage'}, 1), ({'type': 'geopackage_level'}, 1)]
SQL_TYPES = ('mbtiles', 'sqlite', 'geopackage', 'geopackage_level')
LOCKDIR = '/simfs/locks'
_seq = [0]


IDENTITY_SCRIPT = r'''
import json, sys
spec = json.loads(sys.argv[1])
sys.path.insert(0, spec['verif'])
from checks import common as C
from mapproxy.cache.base import TileLocker
from mapproxy.cache.tile import Tile
cache = C.make_cache(spec['backend'], spec['dir'] + '/cache')
locker = TileLocker(spec['dir'] + '/locks', 60, cache.lock_cache_id)
out = {'lock_cache_id': cache.lock_cache_id,
       'tile_locks': [locker.lock_filename(Tile(tuple(c))) for c in spec['coords']]}
if spec['backend']['type'] == 'compact':
    out['bundle_locks'] = [cache._get_bundle(tuple(c)).lock_filename for c in spec['coords']]
print(json.dumps(out))
'''


def _run_identity(sc, tape):
    """processes of a multi-process deployment are separately started interpreters: the names of the lock files they
    meet on must not depend on anything that differs between interpreters (hash randomisation)"""
    import json
    import subprocess
    import shutil
    import tempfile
    import mapproxy
    from simkit.world import _REAL
    d = tempfile.mkdtemp(prefix='verif-c08id-%d-' % _REAL['os.getpid'](), dir='/dev/shm')
    name = C.backend_name(sc['backend'])
    spec = {'verif': os.path.dirname(os.path.dirname(os.path.abspath(__file__))), 'backend': sc['backend'], 'dir': d,
            'coords': sc['coords']}
    outs = []
    try:
        procs = []
        for hs in sc['hashseeds']:
            env = dict(os.environ, PYTHONHASHSEED=str(hs),
                       PYTHONPATH=os.path.dirname(os.path.dirname(os.path.abspath(mapproxy.__file__))))
            procs.append(subprocess.Popen([sys.executable, '-B', '-c', IDENTITY_SCRIPT, json.dumps(spec)], env=env,
                                          stdout=subprocess.PIPE, stderr=subprocess.PIPE))
        for pr in procs:
            o, e = pr.communicate(timeout=120)
            if pr.returncode != 0:
                raise RuntimeError('identity helper failed: %s' % e.decode('utf-8', 'replace')[-800:])
            outs.append(json.loads(o.decode().strip().splitlines()[-1]))
    finally:
        shutil.rmtree(d, ignore_errors=True)
    v = None
    for key in sorted(outs[0]):
        if outs[0][key] != outs[1][key]:
            a, b = outs[0][key], outs[1][key]
            if isinstance(a, list):
                i = [k for k in range(len(a)) if a[k] != b[k]][0]
                a, b = a[i], b[i]
                what = '%s of tile %s' % (key, tuple(sc['coords'][i]))
            else:
                what = key
            v = {'sig': 'C08:lock-identity-differs-between-processes:%s' % name,
                 'msg': '%s is %r in an interpreter started with PYTHONHASHSEED=%s and %r with PYTHONHASHSEED=%s: two server '
                        'processes would lock different files for the same tile and both fetch it' % (
                            what, os.path.basename(a), sc['hashseeds'][0], os.path.basename(b), sc['hashseeds'][1])}
            break
    return {'violation': v, 'digest': C.digest_of('identity', outs[0].get('lock_cache_id') is not None, len(sc['coords'])),
            'nontrivial': True, 'steps': 2, 'sim_time': 0.0, 'faults': {}, 'probes': {'mode_identity': 1},
            'sample': {'backend': name, 'mode': 'identity', 'hashseeds': sc['hashseeds']}}


def gen(t, tier):
    if t.chance(0.004):
        return {'kind': 'identity', 'backend': copy.deepcopy(t.weighted(BACKENDS)), 'hashseeds': [t.randint(1, 1000), t.randint(1001, 2000)],
                'coords': [[t.choice(1 << z), t.choice(1 << z), z] for z in (0, 2, 3, 9, 12)]}
    z = t.pick([2, 3, 3, 4])
    n = 1 << z
    meta = t.pick([[1, 1], [2, 2], [2, 2], [3, 3], [2, 1]])
    bulk = bool(meta != [1, 1] and t.chance(0.2))
    mode = t.weighted([('plain', 5), ('stall', 2), ('upfail', 2), ('kill', 2)])
    sc = {'backend': copy.deepcopy(t.weighted(BACKENDS + SQL_BACKENDS)), 'level': z, 'meta_size': meta,
          'meta_buffer': 0 if bulk else t.pick([0, 0, 2, 5]),
          'minimize': bool(t.chance(0.25)) and not bulk, 'bulk': bulk, 'creators': t.pick([1, 1, 2, 3]),
          'policy': t.pick([['sticky', 0.1], ['sticky', 0.3], ['sticky', 0.6], ['random']]), 'mode': mode,
          'bufsize': t.pick([4096, 8192])}
    # the worker processes start together: each builds its cache object and tile manager when its first request runs (the
    # other threads of the process wait for it), not one after the other before the first request
    sc['lazy'] = bool(t.chance(0.3))
    # one flock() call on a tile lock file fails for a reason other than contention (no lock records left, a hiccup of the
    # lock daemon of a network file system): that attempt did not get the lock
    # per-level SQLite cache: a cleanup (remove_all) has removed the database file of the level after the server had opened
    # it; the first requests re-create it
    sc['level_dropped'] = sc['backend']['type'] == 'sqlite' and not sc['lazy'] and bool(t.chance(0.4))
    sc['flock_fault'] = {'at': t.choice(10), 'errno': t.pick(['ENOLCK', 'ENOLCK', 'EIO'])} if t.chance(0.15) else None
    # linked single-colour tiles under a refresh rule: the file shared by all tiles of the colour was written hours ago (by a
    # tile nobody asks for now), tiles older than an hour are to be refreshed
    sc['aged_colour'] = sc['backend'].get('link') == 'symlink' and bool(t.chance(0.5))
    # threads may also be switched between two statements of the tile manager / cache code (line events)
    sc['linepreempt'] = t.pick([None] * 7 + [10, 40, 200])
    if sc['backend']['type'] in SQL_TYPES and mode == 'kill':
        mode = sc['mode'] = 'plain'
    if (sc['backend']['type'] == 'compact' or sc['backend'].get('layout') in ('tc', 'tms')) and not sc['backend'].get('link'):
        if not bulk and t.chance(0.3):
            # full stack: WSGI application from the real loader, requests through TMS/WMTS/KML/WMS, simulated HTTP upstream
            sc['stack'] = 'wsgi'
            sc['svc'] = t.pick(['tms', 'wmts', 'kml', 'wmtskvp', 'wmsc'])
    # focus tile and a neighbour in another meta tile
    fx, fy = t.choice(n), t.choice(n)
    focus = [fx, fy, z]
    mx, my = meta
    same_meta = [[(fx // mx) * mx + i, (fy // my) * my + j, z] for i in range(mx) for j in range(my)
                 if (fx // mx) * mx + i < n and (fy // my) * my + j < n]
    holes = []
    if bulk and len(same_meta) > 1 and t.chance(0.5):
        # one or two tiles of the focus meta tile lie outside the source's coverage: the meta tile can never be cached completely
        holes = [c for c in same_meta if c != focus][:t.randint(1, 2)]
    ox = (fx + mx) % n if n > mx else fx
    other = [ox, fy, z]
    if mode == 'stall':
        sc['minimize'] = False
        nproc = t.randint(1, 2)
        procs = [{'clients': []} for _ in range(nproc)]
        if other == focus or other in same_meta:
            mode = sc['mode'] = 'plain'
        else:
            procs[0]['clients'].append([[focus]])
            procs[t.choice(nproc)]['clients'].append([[other]])
            for _ in range(t.randint(0, 2)):
                procs[t.choice(nproc)]['clients'].append([[t.pick([focus, other] + same_meta)]])
            sc['stall_tile'] = focus
            sc['free_tile'] = other
            sc['procs'] = procs
            return sc
    nproc = t.randint(1, 3) if mode != 'kill' else t.randint(2, 3)
    procs = [{'clients': []} for _ in range(nproc)]
    nclients = t.randint(2, 6)
    for c in range(nclients):
        reqs = []
        for _ in range(t.randint(1, 2)):
            k = t.weighted([('same', 4), ('meta', 3), ('other', 2), ('multi', 2)])
            if k == 'same':
                reqs.append([focus])
            elif k == 'meta':
                reqs.append([t.pick(same_meta)])
            elif k == 'other':
                reqs.append([other])
            else:
                cands = same_meta + [other, [fx, (fy + 1) % n, z]]
                m = []
                for _ in range(t.randint(2, 4)):
                    x = t.pick(cands)
                    if x not in m:
                        m.append(x)
                reqs.append(m)
        procs[c % nproc if t.chance(0.5) else t.choice(nproc)]['clients'].append(reqs)
    sc['procs'] = [p for p in procs if p['clients']]
    sc['holes'] = holes
    if sc['backend']['type'] == 'file' and not sc['backend'].get('link') and sc.get('stack') != 'wsgi' and not holes and t.chance(0.3):
        # a cache with a dimension (WMS TIME): every client asks for its own value; the values share the tile lock, not the tiles
        for p in sc['procs']:
            p['dims'] = [t.pick([None, '2020', '2020', '2021']) for _ in p['clients']]
    if mode == 'kill' and len(sc['procs']) < 2:
        sc['mode'] = 'plain'
    if sc['mode'] == 'plain' and sc.get('stack') != 'wsgi' and t.chance(0.3):
        # lock files left behind by a crashed process, older than lock_timeout + 10 s: the first lock() call of the
        # run cleans the lock directory while the other requests already try to lock
        sc['stale_locks'] = True
    return sc


def shrink(sc):
    if sc.get('kind') == 'identity':
        return
    for pi, p in enumerate(sc['procs']):
        for ci in range(len(p['clients'])):
            if sum(len(q['clients']) for q in sc['procs']) <= 1:
                continue
            c = copy.deepcopy(sc)
            del c['procs'][pi]['clients'][ci]
            if c['procs'][pi].get('dims'):
                del c['procs'][pi]['dims'][ci]
            c['procs'] = [q for q in c['procs'] if q['clients']]
            if c['mode'] == 'kill' and len(c['procs']) < 2:
                continue
            if c['mode'] == 'stall' and pi == 0 and ci == 0:
                continue
            yield c
    for pi, p in enumerate(sc['procs']):
        for ci, reqs in enumerate(p['clients']):
            if len(reqs) > 1:
                for ri in range(len(reqs)):
                    c = copy.deepcopy(sc)
                    del c['procs'][pi]['clients'][ci][ri]
                    yield c
            for ri, r in enumerate(reqs):
                if len(r) > 1:
                    for k in range(len(r)):
                        c = copy.deepcopy(sc)
                        del c['procs'][pi]['clients'][ci][ri][k]
                        yield c
    for key, simple in (('creators', 1), ('meta_buffer', 0), ('minimize', False), ('bufsize', 8192)):
        if sc[key] != simple:
            c = copy.deepcopy(sc)
            c[key] = simple
            yield c
    if len(sc['procs']) > 1 and sc['mode'] != 'kill':
        c = copy.deepcopy(sc)
        merged = {'clients': [cl for p in c['procs'] for cl in p['clients']]}
        if any(p.get('dims') for p in c['procs']):
            merged['dims'] = [d for p in c['procs'] for d in (p.get('dims') or [None] * len(p['clients']))]
        c['procs'] = [merged]
        yield c


def _all_coords(maxz):
    out = []
    for z in range(maxz + 1):
        for x in range(1 << z):
            for y in range(1 << z):
                out.append((x, y, z))
    return out


def run(sc, tape):
    if sc.get('kind') == 'identity':
        return _run_identity(sc, tape)
    if sc.get('stack') == 'wsgi':
        return _run_wsgi(sc, tape)
    return _run_tm(sc, tape)


class SourceError(Exception):
    """an HTTP error response of the application in the full-stack configuration (upstream failure mode)"""


def _run_wsgi(sc, tape):
    import mapproxy.client.http as H
    from PIL import Image
    from io import BytesIO
    from checks import fullstack as F
    mode = sc['mode']
    name = C.backend_name(sc['backend']) + '-wsgi'
    w = World(tape, policy=tuple(sc['policy']), step_cap=600000)
    sched = w.sched
    http = F.SimHTTP(w)
    w.extra_patches.append((H.HTTPClient, 'open', lambda self, url, data=None, method=None: http.open(self, url, data, method)))
    stall_done = [False]
    faults = {}

    def plan(entry):
        p = {'yields': tape.choice(3), 'latency': tape.pick([0, 0.001, 0.02, 0.2]), 'fail': False}
        if mode == 'stall' and not stall_done[0] and entry['bbox'] and U.covers(entry['bbox'], sc['stall_tile']):
            stall_done[0] = True
            p['latency'] = 30.0
            entry['stalled'] = True
            faults['stalled_upstream_call'] = faults.get('stalled_upstream_call', 0) + 1
        if mode == 'upfail' and tape.chance(0.3):
            p['fail'] = True
            faults['upstream_failure'] = faults.get('upstream_failure', 0) + 1
        return p
    http.plan = plan
    b = sc['backend']
    if b['type'] == 'file':
        cache_conf = {'type': 'file', 'directory_layout': b['layout'], 'directory': C.CACHE_DIR}
    else:
        cache_conf = {'type': 'compact', 'version': b['version'], 'directory': C.CACHE_DIR}
    conf = F.base_conf(cache_conf, meta_size=sc['meta_size'])
    conf['caches']['c1']['meta_buffer'] = sc['meta_buffer']
    conf['caches']['c1']['minimize_meta_requests'] = sc['minimize']
    conf['caches']['c1']['concurrent_tile_creators'] = sc['creators']
    del conf['sources']['src']['on_error']
    conf['grids']['g']['num_levels'] = 6
    conf['globals']['cache']['tile_lock_dir'] = LOCKDIR
    responses = []
    killed = []
    svc = sc['svc']

    def fetch_tile(app, coord, rec):
        st, hd, body = F.wsgi_get(app, *F.url_for(svc, coord))
        sched.check_alive()
        if st != 200:
            rec['exc'] = SourceError('HTTP %d: %r' % (st, body[:160])) if st == 500 else RuntimeError('HTTP %d: %r' % (st, body[:160]))
            return False
        try:
            ok, g, msg = U.check_tile_image(Image.open(BytesIO(body)), coord)
        except Exception as ex:
            ok, g, msg = False, None, 'undecodable body: %r' % (ex,)
        rec['tiles'].append((tuple(coord), ok, g, msg))
        return True

    def client(cname, app, reqs):
        def fn():
            for req in reqs:
                rec = {'client': cname, 'req': req, 't0': w.clock.now, 'seq0': len(sched.log), 'tiles': [], 'exc': None}
                try:
                    if len(req) > 1 and svc == 'wmsc':
                        # one WMS GetMap over the aligned 2x2 block of the first tile
                        x, y, z = req[0]
                        bx, by = x - x % 2, y - y % 2
                        st, hd, body = F.wsgi_get(app, *F.url_for('wms4', (bx, by, z)))
                        sched.check_alive()
                        if st != 200:
                            rec['exc'] = SourceError('HTTP %d: %r' % (st, body[:160])) if st == 500 else RuntimeError('HTTP %d' % st)
                        else:
                            img = Image.open(BytesIO(body)).convert('RGB')
                            for dx in (0, 1):
                                for dy in (0, 1):
                                    crop = img.crop((dx * U.TS, (1 - dy) * U.TS, (dx + 1) * U.TS, (2 - dy) * U.TS))
                                    ok, g, msg = U.check_tile_image(crop, (bx + dx, by + dy, z))
                                    rec['tiles'].append(((bx + dx, by + dy, z), ok, g, msg))
                            rec['req'] = [[bx + dx, by + dy, z] for dx in (0, 1) for dy in (0, 1)]
                    else:
                        for c in req:
                            if not fetch_tile(app, c, rec):
                                break
                except (SimAbort, SimCrash):
                    raise
                except Exception as ex:
                    import traceback
                    rec['exc'] = ex
                    rec['tb'] = ''.join(traceback.format_tb(ex.__traceback__)[-4:])
                rec['t1'] = w.clock.now
                rec['seq1'] = len(sched.log)
                responses.append(rec)
        return fn

    kill_budget = [1 if mode == 'kill' else 0]

    def on_yield(task, kind, key):
        if kill_budget[0] and task.proc.name != 'p0' and task.proc.name.startswith('p') and tape.chance(0.01):
            kill_budget[0] -= 1
            faults['process_kill'] = faults.get('process_kill', 0) + 1
            if any(n2.startswith(LOCKDIR) for n2 in _held_locks(w, task.proc)):
                faults['process_kill_holding_tile_lock'] = faults.get('process_kill_holding_tile_lock', 0) + 1
            killed.append(task.proc.name)
            sched.crash_proc(task.proc, w.fs)

    from mapproxy.grid import tile_grid
    grid = tile_grid(3857, tile_size=(U.TS, U.TS), num_levels=6)
    with w:
        w.fs.buffer_size = sc['bufsize']
        if mode == 'kill':
            sched.on_yield = on_yield
        for pi, p in enumerate(sc['procs']):
            proc = w.new_proc('p%d' % pi)
            app, pc = F.make_app(conf)
            for ci, reqs in enumerate(p['clients']):
                sched.spawn(client('p%dc%d' % (pi, ci), app, reqs), 'p%dc%d' % (pi, ci), proc)
        outcome = w.run_tasks()
        for t in sched.tasks:
            if t.exc is not None:
                raise t.exc
        w.fs.sched = None
        shared = {'log': [e for e in http.log if e.get('bbox')]}
        v = _oracle(sc, w, mode, name, outcome, responses, shared, killed, sched, grid)
    overlap = _overlap(responses, shared['log'])
    probes = dict(w.fs.probes)
    probes['upstream_calls'] = len(http.log)
    if overlap:
        probes['requests_overlapping_on_one_meta_tile'] = overlap
    probes['mode_' + mode] = 1
    probes['stack_wsgi'] = 1
    return {'violation': v, 'digest': C.digest_of(sc['backend'], sc['procs'], svc, sched.log),
            'nontrivial': overlap > 0, 'steps': sched.steps, 'sim_time': w.clock.now - 1.7e9, 'faults': faults,
            'probes': probes,
            'sample': {'backend': name, 'mode': mode, 'service': svc, 'meta_size': sc['meta_size'],
                       'requests': [(r['client'], r['req'], 'exc' if r['exc'] else 'ok') for r in responses][:10],
                       'upstream': [(e['gen'], e['task'], e['ok']) for e in http.log][:10]}}


def _run_tm(sc, tape):
    from mapproxy.grid import tile_grid
    from mapproxy.cache.tile import TileManager, Tile
    from mapproxy.cache.base import TileLocker
    from mapproxy.image.opts import ImageOptions
    from mapproxy.source import SourceError
    from mapproxy.util.lock import LockTimeout

    mode = sc['mode']
    name = C.backend_name(sc['backend'])
    w = World(tape, policy=tuple(sc['policy']), step_cap=400000)
    sched = w.sched
    # linked single-colour tiles: the upstream paints every third diagonal of tiles in one constant colour, different
    # tiles then share one file under single_color_tiles/ (written without a tile lock of its own)
    ocean = bool(sc['backend'].get('link'))
    shared = {'log': [], 'gen': 0, 'ocean': ocean, 'holes': [tuple(c) for c in sc.get('holes') or []]}
    stall_done = [False]
    faults = {}

    def plan(entry):
        p = {'yields': tape.choice(3), 'latency': tape.pick([0, 0.001, 0.02, 0.2]), 'fail': False}
        if mode == 'stall' and not stall_done[0] and U.covers(entry['bbox'], sc['stall_tile']):
            stall_done[0] = True
            p['latency'] = 30.0
            entry['stalled'] = True
            faults['stalled_upstream_call'] = faults.get('stalled_upstream_call', 0) + 1
        if mode == 'upfail' and tape.chance(0.3):
            p['fail'] = True
            faults['upstream_failure'] = faults.get('upstream_failure', 0) + 1
        return p
    shared['plan'] = plan

    grid = tile_grid(3857, tile_size=(U.TS, U.TS), num_levels=6)
    image_opts = ImageOptions(format='image/png', colors=0)
    responses = []      # (client, request coords, t0, t1, [(coord, ok, gen, msg)], exc)
    viol = []
    killed = []

    if sc.get('flock_fault'):
        ff_count = [0]

        def _flock_fault(op, key, proc):
            if op == 'flock' and str(key).startswith(LOCKDIR):
                n_ = ff_count[0]
                ff_count[0] += 1
                if n_ == sc['flock_fault']['at']:
                    import errno as _errno
                    faults['flock_error_' + sc['flock_fault']['errno']] = 1
                    code_ = getattr(_errno, sc['flock_fault']['errno'])
                    raise OSError(code_, os.strerror(code_))
            return None
        w.fs.fault_hook = _flock_fault
    if sc.get('aged_colour'):
        import mapproxy.util.times as times_mod
        w.extra_patches.append((times_mod, 'datetime', C.datetime_module(w.clock)))     # relative rules read the simulated clock
    if sc.get('linepreempt'):
        sched.enable_line_preemption(['mapproxy/cache/tile.py', 'mapproxy/cache/base.py', 'mapproxy/cache/mbtiles.py',
                                      'mapproxy/cache/geopackage.py', 'mapproxy/cache/file.py', 'mapproxy/grid.py'], sc['linepreempt'])
    sql = sc['backend']['type'] in SQL_TYPES
    realdir = None
    simsql = None
    if sql:
        from mapproxy.cache import mbtiles as mbtiles_mod
        from mapproxy.cache import geopackage as gpkg_mod
        from checks.simsql import SimSqlite
        _seq[0] += 1
        realdir = '/dev/shm/verif-c08-%d-%d' % (_REAL['os.getpid'](), _seq[0])
        os.makedirs(realdir)
        # the path the cache is configured with has to be the same string in every worker process and run (lock file names
        # are derived from it): it goes through the worker's current directory
        old_cwd = os.getcwd()
        os.chdir(realdir)
        simsql = SimSqlite(w)
        w.extra_patches.append((mbtiles_mod, 'sqlite3', simsql))
        # MBTilesLevelCache guards its per-level dictionary with a threading.Lock held across database calls
        from simkit.sched import simulate_module_primitives
        simulate_module_primitives(w, mbtiles_mod)
        w.extra_patches.append((gpkg_mod, 'sqlite3', simsql))
        simulate_module_primitives(w, gpkg_mod)

    def make_cache():
        if sql:
            b_ = dict(sc['backend'])
            if b_['type'].startswith('geopackage'):
                b_['grid'] = grid
            return C.make_cache(b_, '/proc/self/cwd/cache', sqlite_timeout=30)
        return C.make_cache(sc['backend'])

    def make_tm():
        cache = make_cache()
        locker = TileLocker(LOCKDIR, 60, cache.lock_cache_id)
        src = U.SimSource(w, shared, supports_meta_tiles=not sc['bulk'], image_opts=image_opts)
        tm_ = TileManager(grid, cache, [src], 'png', locker, image_opts=image_opts,
                          meta_size=sc['meta_size'], meta_buffer=sc['meta_buffer'],
                          minimize_meta_requests=sc['minimize'], concurrent_tile_creators=sc['creators'],
                          bulk_meta_tiles=sc['bulk'])
        if sc.get('aged_colour'):
            tm_._refresh_before = {'hours': 1}
        return tm_

    def client(cname, tm, reqs, dim=None):
        dims = {'time': dim} if dim is not None else None

        def fn():
            nonlocal tm
            if isinstance(tm, dict):
                holder = tm
                if holder['tm'] is None and not holder['building']:
                    holder['building'] = True
                    holder['tm'] = make_tm()
                else:
                    sched.wait_until(lambda: holder['tm'] is not None, 'wait-startup')
                tm = holder['tm']
            for req in reqs:
                t0 = w.clock.now
                rec = {'client': cname, 'req': req, 't0': t0, 'seq0': len(sched.log), 'tiles': [], 'exc': None, 'dim': dim}
                try:
                    # as the services do it: the cache is used inside a session, which ends with cache.cleanup()
                    with tm.session():
                        if dims is not None:
                            tiles = tm.load_tile_coords([tuple(c) for c in req], dimensions=dims)
                        else:
                            tiles = tm.load_tile_coords([tuple(c) for c in req])
                    sched.check_alive()
                    for c, tile in zip(req, tiles):
                        if tile.source is None:
                            if tuple(c) in shared['holes']:
                                continue        # the source has no image for this tile: nothing to serve, nothing to cache
                            rec['tiles'].append((tuple(c), False, None, 'no image in the response'))
                            continue
                        ok, g, msg = U.check_tile_image(tile.source.as_image(), c, ocean=ocean, shift=U.DIM_SHIFT[dim])
                        rec['tiles'].append((tuple(c), ok, g, msg))
                except (SimAbort, SimCrash):
                    raise
                except (SourceError, LockTimeout) as ex:
                    rec['exc'] = ex
                except Exception as ex:
                    import traceback
                    rec['exc'] = ex
                    rec['tb'] = ''.join(traceback.format_tb(ex.__traceback__)[-4:])
                rec['t1'] = w.clock.now
                rec['seq1'] = len(sched.log)
                responses.append(rec)
        return fn

    kill_budget = [1 if mode == 'kill' else 0]

    def on_yield(task, kind, key):
        if kill_budget[0] and task.proc.name != 'p0' and task.proc.name.startswith('p') and tape.chance(0.01):
            kill_budget[0] -= 1
            faults['process_kill'] = faults.get('process_kill', 0) + 1
            if any(n2.startswith(LOCKDIR) for n2 in _held_locks(w, task.proc)):
                faults['process_kill_holding_tile_lock'] = faults.get('process_kill_holding_tile_lock', 0) + 1
            killed.append(task.proc.name)
            sched.crash_proc(task.proc, w.fs)

    v = None
    try:
        with w:
            w.fs.buffer_size = sc['bufsize']
            if mode == 'kill':
                sched.on_yield = on_yield
            first_tm = None
            for pi, p in enumerate(sc['procs']):
                proc = w.new_proc('p%d' % pi)
                if sc.get('lazy') and not sc.get('stale_locks'):
                    tm = {'tm': None, 'building': False}
                else:
                    tm = make_tm()
                    first_tm = first_tm or tm
                    if sc.get('level_dropped'):
                        tm.cache._get_level(sc['level'])        # the process has the level open
                for ci, reqs in enumerate(p['clients']):
                    sched.spawn(client('p%dc%d' % (pi, ci), tm, reqs, (p.get('dims') or [None] * (ci + 1))[ci]),
                                'p%dc%d' % (pi, ci), proc)
            if sc.get('level_dropped') and first_tm is not None:
                first_tm.cache.remove_level_tiles_before(sc['level'], remove_all=True)
                faults['level_database_removed_after_start'] = 1
            if sc.get('aged_colour'):
                w.clock.now -= 7200
                make_cache().store_tile(C.make_tile((0, 31, 5), C.payload({'color': list(U.OCEAN)}, w=U.TS, h=U.TS)))
                w.clock.now += 7200
                faults['shared_colour_file_older_than_refresh_rule'] = 1
            if sc.get('stale_locks'):
                names = set()
                for p in sc['procs']:
                    for reqs in p['clients']:
                        for req in reqs:
                            for c in req:
                                c = tuple(c)
                                if first_tm.meta_grid:
                                    c = first_tm.meta_grid.main_tile(c)
                                names.add(first_tm.locker.lock_filename(Tile(c)))
                if not w.fs.exists(LOCKDIR):
                    os.makedirs(LOCKDIR)
                for nm in sorted(names):
                    with open(nm, 'w') as f:
                        f.write(' 12345\n')
                    w.fs.utime(nm, (w.clock.now - 200, w.clock.now - 200))
                faults['stale_lock_files'] = len(names)
            outcome = w.run_tasks()
            for t in sched.tasks:
                if t.exc is not None:
                    raise t.exc
            w.fs.sched = None
            v = _oracle(sc, w, mode, name, outcome, responses, shared, killed, sched, grid, make_cache, realdir)
    finally:
        if realdir is not None:
            import gc
            import shutil
            gc.collect()        # connections of finished threads
            os.chdir(old_cwd)
            shutil.rmtree(realdir, ignore_errors=True)
    overlap = _overlap(responses, shared['log'])
    probes = dict(w.fs.probes)
    if simsql is not None:
        probes.update(simsql.probes)
    if sched.line_yields:
        probes['thread_switches_between_statements'] = sched.line_yields
    probes['upstream_calls'] = len(shared['log'])
    if overlap:
        probes['requests_overlapping_on_one_meta_tile'] = overlap
    probes['mode_' + mode] = 1
    return {'violation': v, 'digest': C.digest_of(sc['backend'], sc['procs'], sched.log),
            'nontrivial': overlap > 0, 'steps': sched.steps, 'sim_time': w.clock.now - 1.7e9, 'faults': faults,
            'probes': probes,
            'sample': {'backend': name, 'mode': mode, 'meta_size': sc['meta_size'],
                       'requests': [(r['client'], r['req'], 'exc' if r['exc'] else 'ok') for r in responses][:10],
                       'upstream': [(e['gen'], e['task'], e['ok']) for e in shared['log']][:10]}}


def _held_locks(w, proc):
    out = []
    for fd, ofd in proc.fds.items():
        if ofd.inode.lock_owner is ofd:
            out.append(ofd.path)
    return out


def _overlap(responses, log):
    """number of (request, other task's upstream fetch) pairs that overlapped in time and concern the same tile"""
    n = 0
    for r in responses:
        for e in log:
            if e['task'] != r['client'] and not (e.get('seq1', 1 << 60) < r['seq0'] or e['seq0'] > r['seq1']):
                if any(U.covers(e['bbox'], c) for c in r['req']):
                    n += 1
    return n


def _oracle(sc, w, mode, name, outcome, responses, shared, killed, sched, grid, make_cache=None, realdir=None):
    from mapproxy.cache.tile import Tile
    log = shared['log']
    if outcome != 'done':
        return {'sig': 'C08:hang:%s:%s' % (mode, name),
                'msg': 'requests did not terminate: %s, blocked: %r' % (outcome, sched.stuck_info)}
    if sched.unexpected:
        return {'sig': 'C08:worker-died:%s' % name, 'msg': repr(sched.unexpected)}
    ok_fetches = [e for e in log if e['ok']]
    if sc.get('stale_locks') and w.fs.probes.get('unlink_of_file_flocked_by_other_task'):
        # the listed history (known_findings.json): cleanup_lockdir() unlinked a stale lock file that another request had
        # re-locked, two creators worked on one meta tile. Whatever follows from that - the second fetch itself, or a reader
        # that meets the moment in which the second creator re-links a single-colour tile - is reported under that signature
        groups = {}
        for e in ok_fetches:
            groups.setdefault((e['bbox'], e['size'], e.get('dim')), []).append(e)
        dup = [es for es in groups.values() if len(es) > 1]
        if dup:
            failed = [r for r in responses if r['exc'] is not None and type(r['exc']).__name__ not in ('SourceError',)]
            return {'sig': 'C08:duplicate-fetch:stale-lock-cleanup-race',
                    'msg': 'with lock files older than lock_timeout+10s left in the lock directory, cleanup_lockdir() unlinked a lock '
                           'file that another request had re-locked: two creators for the (meta) tile %s (fetches %s)%s [%s, %s]' % (
                               dup[0][0]['bbox'], [(e['task'], e['gen']) for e in dup[0]],
                               '; request %s of %s then failed with %r' % (failed[0]['req'], failed[0]['client'], failed[0]['exc'])
                               if failed else '', mode, name)}
    served = {}
    for r in responses:
        if r['exc'] is not None:
            if mode == 'upfail' and type(r['exc']).__name__ == 'SourceError':
                continue
            if type(r['exc']).__name__ == 'FileNotFoundError' and sc['backend'].get('link') and '_make_seekable_buf' in r.get('tb', ''):
                # one specific history with its own signature (known_findings.json)
                return {'sig': 'C08:reader-meets-relink-of-single-colour-tile',
                        'msg': 'request %s of %s had loaded a linked single-colour tile (file name kept, file opened when the '
                               'response is built); meanwhile another request stored that tile again - '
                               'FileCache._store_single_color_tile() unlinks the tile and links it anew, two steps - and the '
                               'reader opened the path in between: %r [%s, %s]\n%s' % (
                                   r['req'], r['client'], r['exc'], mode, name, r.get('tb', ''))}
            return {'sig': 'C08:request-failed:%s:%s:%s' % (type(r['exc']).__name__, mode, name),
                    'msg': 'request %s of %s raised %r\n%s' % (r['req'], r['client'], r['exc'], r.get('tb', ''))}
        for coord, ok, g, msg in r['tiles']:
            if not ok:
                if mode == 'upfail' and msg == 'no image in the response':
                    continue
                return {'sig': 'C08:wrong-response:%s:%s' % (mode, name),
                        'msg': 'response of %s for tile %s is wrong: %s' % (r['client'], coord, msg)}
            if g is not None and not any(e['gen'] & 255 == g and U.covers(e['bbox'], coord) and e.get('dim') == r.get('dim')
                                         for e in ok_fetches):
                return {'sig': 'C08:unattributable-response:%s:%s' % (mode, name),
                        'msg': 'tile %s served to %s carries generation %d which no successful fetch covering it has' % (
                            coord, r['client'], g)}
            served[(coord, r.get('dim'))] = g
    # final cache contents through a fresh cache object
    cache = make_cache() if make_cache is not None else C.make_cache(sc['backend'])
    present = {}
    with_dims = any(p.get('dims') for p in sc['procs'])
    for dim in ([None, '2020', '2021'] if with_dims else [None]):
        for coord in _all_coords(5):
            t = Tile(coord)
            try:
                found = cache.load_tile(t, dimensions={'time': dim}) if dim is not None else cache.load_tile(t)
            except Exception as ex:
                return {'sig': 'C08:cache-unreadable:%s:%s' % (mode, name), 'msg': 'reading %s back raised %r' % (coord, ex)}
            if found:
                where = '%s%s' % (coord, ' time=%s' % dim if dim else '')
                try:
                    ok, g, msg = U.check_tile_image(t.source.as_image(), coord, ocean=bool(shared.get('ocean')), shift=U.DIM_SHIFT[dim])
                except Exception as ex:
                    ok, g, msg = False, None, 'not a decodable image: %r' % (ex,)
                if not ok:
                    return {'sig': 'C08:wrong-tile-in-cache:%s:%s' % (mode, name),
                            'msg': 'cache holds a wrong image for %s: %s' % (where, msg)}
                if g is not None and not any(e['gen'] & 255 == g and U.covers(e['bbox'], coord) and e.get('dim') == dim
                                             for e in log if e['ok'] is not False):
                    return {'sig': 'C08:unattributable-tile-in-cache:%s:%s' % (mode, name),
                            'msg': 'cached tile %s carries generation %d of no fetch covering it' % (where, g)}
                present[(coord, dim)] = g
    for key in served:
        if key not in present:
            return {'sig': 'C08:served-tile-not-cached:%s:%s' % (mode, name),
                    'msg': 'tile %s%s was served but is not in the cache at quiescence' % (key[0], ' time=%s' % key[1] if key[1] else '')}
    # raw walk: nothing that is not a tile of the grid
    msg = _raw_walk(sc, w, cache, present) if realdir is None else _raw_rows(realdir, present)
    if msg:
        return {'sig': 'C08:stray-object-in-cache:%s:%s' % (mode, name), 'msg': msg}
    # upstream asked once per meta tile
    per = {}
    for e in log:
        if mode == 'kill' and e['proc'] in killed:
            continue
        if e['ok'] is False:
            continue
        if mode == 'upfail' and sc['bulk']:
            # bulk meta tiles: tiles are fetched one by one but stored only if the whole meta tile succeeded,
            # so a successful fetch may legitimately be repeated after a sibling fetch failed
            continue
        per.setdefault((e['bbox'], e['size'], e.get('dim')), []).append(e)
    holes_ = [tuple(c) for c in sc.get('holes') or []]
    hmx, hmy = sc['meta_size']
    hole_cells = set((c[0] // hmx, c[1] // hmy, c[2]) for c in holes_)

    def in_hole_meta_tile(bbox):
        # tile-by-tile fetches (bulk mode) for a meta tile that can never be cached completely are repeated by every
        # request that needs it
        for z_ in range(6):
            n_ = 1 << z_
            for cell in hole_cells:
                if cell[2] != z_:
                    continue
                for i_ in range(hmx):
                    for j_ in range(hmy):
                        c_ = (cell[0] * hmx + i_, cell[1] * hmy + j_, z_)
                        if c_[0] < n_ and c_[1] < n_ and U.covers(bbox, c_):
                            return True
        return False
    for k, es in per.items():
        if len(es) > 1 and hole_cells and in_hole_meta_tile(k[0]):
            continue
        if len(es) > 1:
            if sc.get('stale_locks') and w.fs.probes.get('unlink_of_file_flocked_by_other_task'):
                # specific history: cleanup_lockdir() unlinked a stale lock file after another request had re-locked it
                return {'sig': 'C08:duplicate-fetch:stale-lock-cleanup-race',
                        'msg': 'with lock files older than lock_timeout+10s left in the lock directory, cleanup_lockdir() (run by '
                               'the first lock() call) read the old mtime, another request then re-used and locked the file, and '
                               'cleanup_lockdir() unlinked it: a third request created a new lock file and the upstream was asked '
                               '%d times for the (meta) tile %s: by %s [%s, %s]' % (
                                   len(es), k[0], [(e['task'], e['gen']) for e in es], mode, name)}
            return {'sig': 'C08:duplicate-fetch:%s:%s' % (mode, name),
                    'msg': 'upstream was asked %d times for the same (meta) tile %s: by %s' % (
                        len(es), k[0], [(e['task'], e['gen']) for e in es])}
    if mode == 'stall':
        st = [e for e in log if e.get('stalled')]
        for r in responses:
            if r['req'] == [sc['free_tile']] and st:
                if r['t0'] < st[0]['t1'] and r['t1'] - r['t0'] > 5.0 and r['t1'] >= st[0]['t1'] - 1e-6:
                    return {'sig': 'C08:blocked-by-other-meta-tile:%s' % name,
                            'msg': 'request of %s for %s took %.2fs of simulated time while another meta tile\'s creator '
                                   'was stalled for 30s upstream' % (r['client'], sc['free_tile'], r['t1'] - r['t0'])}
    return None


def _raw_rows(realdir, present):
    """SQLite backends: every row of every database file under the cache directory must be a tile the cache API reports"""
    import sqlite3
    for root, dirs, files in sorted(os.walk(realdir)):
        for fn in sorted(files):
            if not fn.endswith(('.mbtiles', '.mbtile', '.gpkg')):
                continue
            db = sqlite3.connect(os.path.join(root, fn))
            try:
                rows = db.execute('SELECT tile_column, tile_row, zoom_level FROM tiles').fetchall()
            finally:
                db.close()
            for x, y, z in rows:
                if ((x, y, z), None) not in present:
                    return 'database %s holds a row for %s which is not a tile the cache API reports' % (fn, (x, y, z))
    return None


def _raw_walk(sc, w, cache, present):
    tree = w.fs.tree(copy=False)
    b = sc['backend']
    if b['type'] == 'file':
        from mapproxy.cache.tile import Tile
        known = set()
        for coord, dim in present:
            if dim is not None:
                known.add(cache.tile_location(Tile(coord), dimensions={'time': dim})[len('/simfs'):])
            else:
                known.add(cache.tile_location(Tile(coord))[len('/simfs'):])
        for p, val in tree.items():
            if not p.startswith('/cache/') or val is None:
                continue
            if '.tmp-' in p:
                continue
            if b.get('link') and p.startswith('/cache/single_color_tiles/'):
                continue
            if p not in known:
                return 'file %s in the cache directory is not a tile of the grid that the cache API reports' % p
    else:
        for p, val in tree.items():
            if not p.startswith('/cache/') or not p.endswith('.bundle') or '.tmp-' in p:
                continue
            lvl = int(p.split('/')[2][1:])
            base = p.split('/')[3]
            r0 = int(base[1:5], 16)
            c0 = int(base[6:10], 16)
            if b['version'] == 2:
                ents = [(i % 128, i // 128) for i, off, size in BP.v2_entries(val)]
            else:
                idx = tree.get(p[:-len('.bundle')] + '.bundlx')
                if idx is None:
                    continue
                import struct
                offs = BP.v1_entries(idx)
                ents = []
                for i in [int(k) for k in offs.nonzero()[0]]:
                    off = int(offs[i])
                    if off + 4 <= len(val) and struct.unpack_from('<I', val, off)[0] > 0:
                        ents.append((i // 128, i % 128))
            for col, row in ents:
                coord = (c0 + col, r0 + row, lvl)
                if (coord, None) not in present:
                    return 'bundle %s holds a record for %s which is not a tile the cache API reports' % (p, coord)
    return None


if __name__ == '__main__':
    import checks.c08 as me
    from simkit import driver
    driver.main(me)
