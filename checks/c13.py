"""C13 - expiry rules decide precisely which tiles are refreshed.

System: the real TileManager (single-tile and meta-tile creation), refresh thresholds through
the real paths (`refresh_before` dict: relative age via timestamp_before() on the simulated clock,
absolute ISO time, mtime of a file on SimFS; `_expire_timestamp` set by the real seed_task with its
real worker threads), file cache on SimFS or per-level sqlite cache on tmpfs.  The simulated
parties are the clock (advances, second boundaries, backward steps) and the upstream
(failures / recovery).  One harness task issues the operations; seed workers are adopted threads.
"""
import copy
import os
import shutil
import sqlite3
import sys
import time as _time
import traceback
import types

sys.path.insert(0, os.path.dirname(os.path.dirname(os.path.abspath(__file__))))

from simkit.world import World, _REAL  # noqa: E402
from simkit.sched import SimAbort, SimCrash, SimQueue, SimQueueModule  # noqa: E402
from checks import common as C  # noqa: E402
from checks import upstream as U  # noqa: E402

PROP = 'C13'
LEVEL = 'exploration'
VERSION = 1
BUDGET = {'quick': 50, 'thorough': 600}
CHUNK = {'quick': 20, 'thorough': 40}
RULE = ('one case = one seeded history (6-30 ops: tile request, clock advance incl. sub-second / to a second boundary / '
        'backwards, threshold change (relative in seconds ... weeks, absolute time as ISO string or datetime object, mtime of a file), touch of the mtime file, ageing of one stored tile, a disk error inside the next store, soft failure of an optional transparent overlay source (uncacheable result), upstream '
        'fail/recover, refresh seed task) on one deployment (file cache or per-level sqlite cache; single-tile or meta-tile '
        'creation; seeded local time zone (fixed offsets, one with daylight-saving time in force); seeded upstream latency (1 ms or none) and scheduling policy; the tile manager may come out of the configuration loader (cache with refresh_before and two grids); the upstream may report an age for its data, as a cache used as a '
        'source does); non-trivial = some request hit a cached tile while a threshold was in force and the oracle decided '
        'must-refresh or must-not-refresh (not the unspecified same-second band); distinct = distinct (deployment, ops) hash')
COMPONENTS = {
    'real': ['mapproxy.cache.tile.TileManager/TileCreator (is_cached, is_stale, expire_timestamp)',
             'mapproxy.seed.config.before_timestamp_from_options', 'mapproxy.util.times.timestamp_before/timestamp_from_isodate',
             'mapproxy.seed.seeder.seed_task/TileWalker/TileWorkerPool/TileSeedWorker (thread flavour)',
             'mapproxy.cache.file.FileCache', 'mapproxy.cache.mbtiles.MBTilesLevelCache (+sqlite3)', 'TileLocker/FileLock'],
    'stub': ['clock (time.time, time.sleep, datetime.now in util/times.py)', 'upstream source (SimSource)', 'fork() of the seed workers (thread workers that take a copy of the tile manager when started)',
             'file system for the file cache and the mtime file (SimFS)', 'queue + scheduler for the seed worker threads'],
    'outside_the_seams': ['sqlite file I/O on tmpfs'],
}
ASSUMPTIONS = [
    'mapproxy truncates tile timestamps to whole seconds on purpose: if floor(tile time) == floor(threshold) either outcome is accepted (counted as unspecified)',
    'fixed-offset local time zones (no DST transitions); thresholds and timestamps are compared as recorded (SimFS st_mtime / sqlite last_modified), never against wall time',
    'seed task with meta tiles: the walker judges a meta tile by its main tile; mixed-freshness meta tiles are unspecified',
    'linked single-colour tiles in the symlink flavour only: with hardlinks all links share one modification time, a limitation '
    'the documentation of link_single_color_images states',
]

_seq = [0]
UNIT_SECONDS = {'seconds': 1, 'minutes': 60, 'hours': 3600, 'days': 86400, 'weeks': 7 * 86400}


def _rel_seconds(t):
    if 'multi' in t:
        return sum(n * UNIT_SECONDS[u] for u, n in t['multi'].items())
    return t['n'] * UNIT_SECONDS[t['unit']]


def gen(t, tier):
    z = t.pick([2, 3])
    n = 1 << z
    meta = t.pick([[1, 1], [1, 1], [2, 2], [3, 3]])
    backend = t.weighted([({'type': 'file', 'layout': 'tc'}, 3), ({'type': 'file', 'layout': 'tms'}, 1), ({'type': 'sqlite'}, 2),
                          ({'type': 'file', 'layout': 'tc', 'link': 'symlink'}, 2)])
    fx, fy = t.choice(n), t.choice(n)
    pool = [[fx, fy, z]]
    for dx, dy in ((1, 0), (0, 1), (1, 1), (2, 0), (0, 2)):
        c = [(fx + dx) % n, (fy + dy) % n, z]
        if c not in pool:
            pool.append(c)
    pool = pool[:t.randint(2, len(pool))]
    sc = {'backend': copy.deepcopy(backend), 'level': z, 'meta_size': meta, 'meta_buffer': t.pick([0, 0, 2]) if meta != [1, 1] else 0,
          'pool': pool, 'ops': [], 'frac': t.pick([0.0, 0.25, 0.9]),
          'ocean': bool(backend.get('link')) or bool(t.chance(0.2))}
    # a second, transparent source on top (an overlay): while it "fails softly" its error handler answers with an uncacheable
    # transparent image - what is built from it may be served but must not be written into the cache
    sc['overlay'] = bool(t.chance(0.2))
    # (file backends) the tile manager is built by the configuration loader from a cache with refresh_before and two grids
    sc['via_loader'] = t.pick([None, None, None, 60, 3600]) if backend['type'] == 'file' else None
    # how long the upstream takes: a millisecond of simulated time (every other runnable request gets to run while one
    # waits for it), or no time at all (a request can be overtaken between its freshness check and its lock)
    sc['up_latency'] = t.pick([0.001, 0.001, 0.0])
    sc['policy'] = t.pick([['sticky', 0.3], ['sticky', 0.3], ['sticky', 0.05], ['random']])
    # a tiled upstream: the tiles of a meta tile are fetched one by one and stored together (bulk_meta_tiles)
    sc['bulk'] = meta != [1, 1] and not sc['via_loader'] and not sc['overlay'] and bool(t.chance(0.3))
    if sc['bulk']:
        sc['meta_buffer'] = 0
    # minimize_meta_requests: a request for several tiles is answered from one upstream request for their common bounding
    # rectangle instead of whole meta tiles; requests then ask for many tiles at once (as a WMS request does)
    sc['minimize'] = meta != [1, 1] and not sc['bulk'] and not sc['via_loader'] and bool(t.chance(0.3))
    nops = t.randint(6, 18 if tier == 'quick' else 30)
    for _ in range(nops):
        k = t.weighted([('drop', 2), ('softfail', 2 if sc['overlay'] else 0), ('req', 8), ('adv', 5), ('thr', 3), ('touch', 1), ('upfail', 1), ('seed', 1), ('req2', 3),
                        ('age', 2 if meta != [1, 1] else 1), ('storefail', 1 if backend['type'] == 'file' else 0)])
        if k == 'req2':
            # two (or three) concurrent requests for the same or neighbouring tiles
            c = t.pick(pool)
            sc['ops'].append(['req2', [[c], [t.pick([c, c, t.pick(pool)])]] + ([[c]] if t.chance(0.3) else [])])
        elif k == 'req':
            m = t.randint(1, 2) if not (sc.get('minimize') and t.chance(0.6)) else t.randint(3, len(pool))
            cs = []
            for _ in range(m):
                c = t.pick(pool)
                if c not in cs:
                    cs.append(c)
            sc['ops'].append(['req', cs])
        elif k == 'adv':
            sc['ops'].append(['adv', t.pick([0.3, 0.6, 1.0, 1.5, 2.0, 'boundary', 'boundary', 10, 3600, -2, -0.4, 7200, 90000,
                                             3 * 86400, 8 * 86400, 61 * 86400])])
        elif k == 'thr':
            kind = t.weighted([('none', 1), ('rel', 4), ('time', 3), ('mtime', 2)])
            if kind == 'rel' and t.chance(0.3):
                # several units in one rule, as in the documentation (weeks: 1, days: 7, hours: 4, minutes: 15)
                units = sorted(set(t.pick(['seconds', 'minutes', 'hours', 'days', 'weeks']) for _ in range(t.randint(2, 3))))
                sc['ops'].append(['thr', {'kind': 'rel', 'multi': dict((u_, t.pick([1, 2, 5, 30])) for u_ in units)}])
            elif kind == 'rel':
                sc['ops'].append(['thr', {'kind': 'rel', 'unit': t.pick(['seconds', 'seconds', 'minutes', 'hours', 'days', 'weeks']),
                                          'n': t.pick([0, 1, 2, 5, 60])}])
            elif kind == 'time':
                sc['ops'].append(['thr', {'kind': 'time', 'offset': t.pick([-3600, -5, -2, -1, 0, 1, 5]),
                                          'as_datetime': bool(t.chance(0.4))}])
            else:
                sc['ops'].append(['thr', {'kind': kind}])
        elif k == 'touch':
            sc['ops'].append(['touch'])
        elif k == 'softfail':
            sc['ops'].append(['softfail', bool(t.choice(2))])
        elif k == 'age':
            # one stored tile is older than its neighbours (what an interrupted refresh of a meta tile, a changed meta_size or
            # tiles restored from a backup leave behind): its recorded time is moved back
            sc['ops'].append(['age', t.pick(pool), t.pick([3, 60, 3600, 86400, 30 * 86400])])
        elif k == 'upfail':
            sc['ops'].append(['upfail', bool(t.choice(2))])
        elif k == 'drop':
            # one stored tile is gone (a cleanup removed it, an operator deleted it): its meta tile is only partly there
            sc['ops'].append(['drop', t.pick(pool)])
        elif k == 'storefail':
            # the next request that has to store a tile meets a disk error while doing so (the upstream answered fine)
            sc['ops'].append(['storefail', t.pick(['EIO', 'ENOSPC']), t.choice(3)])
            sc['ops'].append(['req', [t.pick(pool)]])
        else:
            sc['ops'].append(['seed', {'offset': t.pick([-3600, -5, -1, 0, 1, 5])}])
    sc['tz'] = t.pick(C.TIMEZONES)
    sc['src_age'] = t.pick([None, None, 5, 3600, 3 * 86400])
    # the seed workers are forked processes (the default on Linux): each works with the tile manager as it was when the
    # worker was started, not with what the parent sets on its own copy afterwards
    sc['fork_workers'] = bool(t.chance(0.5))
    sc['seed_conf'] = bool(sc['via_loader']) and bool(t.chance(0.7))
    return sc


def shrink(sc):
    if sc.get('tz', 'UTC') != 'UTC':
        c = copy.deepcopy(sc)
        c['tz'] = 'UTC'
        yield c
    n = len(sc['ops'])
    size = n // 2
    while size >= 1:
        for i in range(0, n, size):
            c = copy.deepcopy(sc)
            del c['ops'][i:i + size]
            yield c
        size //= 2
    for i, op in enumerate(sc['ops']):
        if op[0] == 'req' and len(op[1]) > 1:
            for j in range(len(op[1])):
                c = copy.deepcopy(sc)
                del c['ops'][i][1][j]
                yield c
    if sc['meta_buffer']:
        c = copy.deepcopy(sc)
        c['meta_buffer'] = 0
        yield c
    if sc['frac']:
        c = copy.deepcopy(sc)
        c['frac'] = 0.0
        yield c


class Bad(Exception):
    def __init__(self, kind, msg):
        Exception.__init__(self, msg)
        self.kind = kind
        self.msg = msg


def _iso(ts):
    return C.iso_local(ts)


def run(sc, tape):
    with C.local_timezone(sc.get('tz')):
        return _run(sc, tape)


def _run(sc, tape):
    seeder = C.import_seeder_threaded()
    import datetime as real_dt
    import mapproxy.util.times as times
    from mapproxy.grid import tile_grid
    from mapproxy.cache.tile import TileManager, Tile
    from mapproxy.cache.base import TileLocker
    from mapproxy.image.opts import ImageOptions
    from mapproxy.source import SourceError
    from mapproxy.seed.seeder import SeedTask, seed_task
    from mapproxy.util.coverage import BBOXCoverage
    from mapproxy.srs import SRS

    name = C.backend_name(sc['backend']) + ('-meta' if sc['meta_size'] != [1, 1] else '-single')
    w = World(tape, policy=tuple(sc.get('policy') or ('sticky', 0.3)), step_cap=400000, start_time=1.7e9 + sc['frac'])
    sched = w.sched
    clock = w.clock
    w.fs.mtime_res = sc.get('mtime_res')

    w.extra_patches.append((times, 'datetime', C.datetime_module(clock)))
    w.extra_patches.append((seeder, 'queue_class', SimQueue))
    if sc.get('fork_workers'):
        _RealSeedWorker = seeder.TileSeedWorker

        class ForkedSeedWorker(_RealSeedWorker):
            def start(self):
                self.tile_mgr = copy.copy(self.tile_mgr)    # what fork() hands to the child: the state of this moment
                return _RealSeedWorker.start(self)
        w.extra_patches.append((seeder, 'TileSeedWorker', ForkedSeedWorker))
    w.extra_patches.append((seeder, 'Queue', SimQueueModule))
    shared = {'log': [], 'gen': 0, 'ocean': sc.get('ocean', False), 'src_age': sc.get('src_age')}
    ocean = sc.get('ocean', False)
    upfail = [False]
    faults = {}

    def plan(entry):
        p = {'yields': 0, 'latency': sc.get('up_latency', 0.001), 'fail': upfail[0]}
        if upfail[0]:
            faults['upstream_failure'] = faults.get('upstream_failure', 0) + 1
        return p
    shared['plan'] = plan
    grid = tile_grid(3857, tile_size=(U.TS, U.TS), num_levels=5)
    image_opts = ImageOptions(format='image/png', colors=0)
    realdir = None
    onsim = sc['backend']['type'] == 'file'
    if not onsim:
        _seq[0] += 1
        realdir = '/dev/shm/verif-c13-%d-%d' % (_REAL['os.getpid'](), _seq[0])
        os.makedirs(realdir)
    cdir = C.CACHE_DIR if onsim else realdir
    TRIGGER = '/simfs/trigger/file.txt'
    state = {'thr': None}
    probes = {}
    unspecified = [0]
    decided = [0]
    v = None

    softfail = [False]
    overlay_log = []

    class Overlay(object):
        """second source of the cache: fully transparent; in a soft-failure period it answers like mapproxy's
        HTTPSourceErrorHandler does for `on_error: {other: {response: transparent, cache: False}}`"""
        res_range = None
        coverage = None
        extent = None
        supports_meta_tiles = True
        transparent = True

        def is_opaque(self, query):
            return False

        def get_map(self, query):
            from PIL import Image
            from mapproxy.image import ImageSource, BlankImageSource
            opts = ImageOptions(format='image/png', transparent=True, colors=0)
            overlay_log.append({'soft': softfail[0], 'bbox': tuple(query.bbox)})
            if sched is not None:
                sched.yield_point('overlay-call', len(overlay_log))
            if softfail[0]:
                faults['overlay_soft_failure'] = faults.get('overlay_soft_failure', 0) + 1
                return BlankImageSource(size=query.size, image_opts=opts, cacheable=False)
            return ImageSource(Image.new('RGBA', tuple(query.size), (0, 0, 0, 0)), size=tuple(query.size), image_opts=opts, cacheable=True)

    last_pc = [None]

    def make_tm():
        if sc.get('via_loader'):
            # the tile manager comes out of the real configuration loader: a cache with its own refresh_before option and two
            # grids (the first one is used); only its sources are replaced by the simulated upstream
            from checks import fullstack as F
            b_ = sc['backend']
            conf = F.base_conf({'type': 'file', 'directory_layout': b_.get('layout', 'tc')}, meta_size=sc['meta_size'],
                               refresh_before={'seconds': sc['via_loader']}, link=b_.get('link') or False)
            conf['caches']['c1']['meta_buffer'] = sc['meta_buffer']
            conf['grids']['g2'] = {'srs': 'EPSG:3857', 'tile_size': [U.TS, U.TS], 'num_levels': 3, 'origin': 'ul'}
            conf['caches']['c1']['grids'] = ['g', 'g2']
            pc_ = F.make_conf(conf)
            last_pc[0] = pc_
            tmx = [t_ for _, _, t_ in pc_.caches['c1'].caches()][0]
            tmx.sources = [U.SimSource(w, shared, image_opts=image_opts)] + ([Overlay()] if sc.get('overlay') else [])
            return tmx
        cache = C.make_cache(sc['backend'], cdir)
        locker = TileLocker('/simfs/locks', 60, cache.lock_cache_id)
        src = U.SimSource(w, shared, supports_meta_tiles=not sc.get('bulk'), image_opts=image_opts)
        sources = [src]
        if sc.get('overlay'):
            sources.append(Overlay())
        return TileManager(grid, cache, sources, 'png', locker, image_opts=image_opts,
                           meta_size=sc['meta_size'], meta_buffer=sc['meta_buffer'], bulk_meta_tiles=bool(sc.get('bulk')),
                           minimize_meta_requests=bool(sc.get('minimize')))

    def stored(coord, cache):
        """independent read of (generation, timestamp) of a stored tile; None if absent"""
        coord = tuple(coord)
        if onsim:
            path = cache.tile_location(Tile(coord))
            try:
                # the tile's own write time: the link itself for linked single-colour tiles
                st = w.fs.stat(path, follow_symlinks=False, _yield=False)
            except OSError:
                return None
            from PIL import Image
            from io import BytesIO
            data = w.fs.read_file(path)
            ok, g, msg = U.check_tile_image(Image.open(BytesIO(data)), coord, ocean=ocean)
            if not ok:
                raise Bad('wrong-tile-in-cache', 'cache holds a wrong image for %s: %s' % (coord, msg))
            return g, st.st_mtime
        fn = os.path.join(cdir, 'sqlite', '%d.mbtile' % coord[2])
        if not os.path.exists(fn):
            return None
        db = sqlite3.connect(fn)
        try:
            row = db.execute('SELECT tile_data, last_modified FROM tiles WHERE tile_column=? AND tile_row=? AND zoom_level=?',
                             coord).fetchone()
        finally:
            db.close()
        if row is None:
            return None
        from PIL import Image
        from io import BytesIO
        ok, g, msg = U.check_tile_image(Image.open(BytesIO(row[0])), coord, ocean=ocean)
        if not ok:
            raise Bad('wrong-tile-in-cache', 'cache holds a wrong image for %s: %s' % (coord, msg))
        ts = _time.mktime(_time.strptime(row[1], '%Y-%m-%d %H:%M:%S'))     # recorded in local time
        return g, float(ts)

    storefail = {'armed': False}

    def fs_fault_hook(op, key, proc):
        if storefail['armed'] and op in ('write', 'rename') and isinstance(key, (str, tuple)) and '/cache/' in str(key) \
                and '.lck' not in str(key):
            if storefail['skip'] > 0:
                storefail['skip'] -= 1
                return None
            storefail['armed'] = False
            import errno as _errno
            faults['disk_error_while_storing'] = faults.get('disk_error_while_storing', 0) + 1
            code = getattr(_errno, storefail['errno'])
            e = OSError(code, os.strerror(code), str(key))
            e.injected = True
            raise e
        return None
    w.fs.fault_hook = fs_fault_hook

    def age_tile(coord, dt, cache):
        coord = tuple(coord)
        if onsim:
            path = cache.tile_location(Tile(coord))
            try:
                st = w.fs.stat(path, follow_symlinks=False, _yield=False)
            except OSError:
                return
            import stat as _stat
            if _stat.S_ISLNK(st.st_mode):
                return      # the time of a link cannot be set through the portable API
            w.fs.utime(path, (st.st_mtime - dt, st.st_mtime - dt))
            probes['tiles_aged'] = probes.get('tiles_aged', 0) + 1
            return
        fn = os.path.join(cdir, 'sqlite', '%d.mbtile' % coord[2])
        if not os.path.exists(fn):
            return
        db = sqlite3.connect(fn)
        try:
            db.execute("UPDATE tiles SET last_modified = datetime(last_modified, ?) WHERE tile_column=? AND tile_row=? AND zoom_level=?",
                       ('-%d seconds' % dt,) + coord)
            db.commit()
            probes['tiles_aged'] = probes.get('tiles_aged', 0) + 1
        finally:
            db.close()

    def threshold_now():
        """the oracle's own idea of the threshold in force at this instant (None = no rule)"""
        t = state['thr']
        if t is None or t['kind'] == 'none':
            return None
        if t['kind'] == 'rel':
            secs = _rel_seconds(t)
            return float(int(clock.now) - secs), float(int(clock.now + 0.01) - secs)
        if t['kind'] == 'time':
            return float(t['abs']), float(t['abs'])
        if t['kind'] == 'mtime':
            try:
                m = w.fs.stat(TRIGGER, _yield=False).st_mtime
            except OSError:
                return 'error'
            return m, m
        raise ValueError(t)

    def classify(ts, thr):
        """'stale' | 'fresh' | 'unspecified' for a recorded tile time and a threshold interval"""
        lo, hi = thr
        if int(ts) < int(lo) and int(ts) < int(hi):
            return 'stale'
        if int(ts) > int(lo) and int(ts) > int(hi):
            return 'fresh'
        return 'unspecified'

    def driver():
        tm = make_tm()
        if sc.get('via_loader'):
            state['thr'] = {'kind': 'rel', 'unit': 'seconds', 'n': sc['via_loader']}
        pool = [tuple(c) for c in sc['pool']]
        all_level = [(x, y, sc['level']) for x in range(1 << sc['level']) for y in range(1 << sc['level'])]
        for i, op in enumerate(sc['ops']):
            what = 'op#%d %r' % (i, op)
            k = op[0]
            if k == 'adv':
                if op[1] == 'boundary':
                    clock.now = float(int(clock.now) + 1)
                else:
                    clock.now += op[1]
            elif k == 'thr':
                t = dict(op[1])
                if t['kind'] == 'time':
                    t['abs'] = int(clock.now) + t['offset']
                    if t.get('as_datetime'):
                        import datetime as _dt
                        # an unquoted YAML timestamp arrives as a (naive, local time) datetime object
                        tm._refresh_before = {'time': _dt.datetime.fromtimestamp(t['abs'])}
                    else:
                        tm._refresh_before = {'time': _iso(t['abs'])}
                elif t['kind'] == 'rel':
                    tm._refresh_before = dict(t['multi']) if 'multi' in t else {t['unit']: t['n']}
                elif t['kind'] == 'mtime':
                    if not w.fs.exists(TRIGGER):
                        w.fs.mkdir('/simfs/trigger') if not w.fs.exists('/simfs/trigger') else None
                        w.fs.fd_close(w.fs.os_open(TRIGGER, os.O_CREAT | os.O_WRONLY, 0o644))
                    tm._refresh_before = {'mtime': TRIGGER}
                else:
                    tm._refresh_before = {}
                state['thr'] = t
            elif k == 'touch':
                if w.fs.exists(TRIGGER):
                    w.fs.utime(TRIGGER, None)
            elif k == 'upfail':
                upfail[0] = op[1]
            elif k == 'softfail':
                softfail[0] = op[1]
            elif k == 'storefail':
                if onsim:
                    storefail.update({'armed': True, 'errno': op[1], 'skip': op[2]})
            elif k == 'age':
                age_tile(op[1], op[2], tm.cache)
            elif k == 'drop':
                storefail['armed'] = False
                tm.cache.remove_tile(Tile(tuple(op[1])))
                probes['tiles_dropped'] = probes.get('tiles_dropped', 0) + 1
            elif k == 'req':
                _request(tm, [tuple(c) for c in op[1]], what, pool)
            elif k == 'req2':
                _concurrent(tm, [[tuple(c) for c in r] for r in op[1]], what, pool)
            elif k == 'seed':
                if not upfail[0]:       # with a dead upstream the seeder only backs off (100 x 600 s) and gives up
                    _seed(op[1], what, all_level, tm._refresh_before)
            clock.now += 0.013

    def _snapshot(tm, coords):
        return dict((c, stored(c, tm.cache)) for c in coords)

    def _request(tm, coords, what, pool):
        thr = threshold_now()
        t_begin = clock.now
        before = _snapshot(tm, pool)
        n0 = len(shared['log'])
        ov0 = len(overlay_log)
        exc = None
        tiles = None
        try:
            tiles = tm.load_tile_coords(coords)
            sched.check_alive()
        except SourceError as ex:
            exc = ex
        except (SimAbort, SimCrash, Bad):
            raise
        except OSError as ex:
            if not getattr(ex, 'injected', False):
                raise Bad('request-raised', '%s raised %r\n%s' % (what, ex, ''.join(traceback.format_tb(ex.__traceback__)[-3:])))
            exc = ex        # the injected disk error surfaced: the request failed, nothing it touched may be destroyed
            ex = None
            import gc
            gc.collect()
        except Exception as ex:
            raise Bad('request-raised', '%s raised %r\n%s' % (what, ex, ''.join(traceback.format_tb(ex.__traceback__)[-3:])))
        storefail['armed'] = False      # the disk error is meant for this request only
        thr2 = threshold_now()
        calls = shared['log'][n0:]
        after = _snapshot(tm, pool)
        soft = [e for e in overlay_log[ov0:] if e['soft']]
        if soft:
            # part of what was built in this request is an uncacheable error image: nothing of it may reach the cache
            for c in pool:
                if after[c] != before[c] and any(U.covers(e['bbox'], c) for e in soft):
                    raise Bad('uncacheable-result-stored', '%s: a source failed softly (uncacheable error image) while tile %s was '
                              'built, but the cache changed from %r to %r: the old tile is gone and the degraded one counts as fresh' % (
                                  what, c, before[c], after[c]))
            return
        if thr == 'error' or thr2 == 'error':
            return
        if thr is not None and thr2 is not None:
            thr = (min(thr[0], thr2[0]), max(thr[1], thr2[1]))
        must_fetch, must_not = [], []
        for c in coords:
            b = before[c]
            if b is None:
                must_fetch.append(c)
            elif thr is None:
                must_not.append(c)
            else:
                cl = classify(b[1], thr)
                if cl == 'stale':
                    must_fetch.append(c)
                    decided[0] += 1
                elif cl == 'fresh':
                    must_not.append(c)
                    decided[0] += 1
                else:
                    unspecified[0] += 1
        for c in must_fetch:
            if exc is not None:
                break       # the request was aborted by an upstream failure before every tile was tried
            if not any(U.covers(e['bbox'], c) for e in calls):
                b = before[c]
                raise Bad('stale-tile-not-refreshed', '%s: tile %s was written at %s, the threshold is %s, but the upstream '
                          'was not asked for it' % (what, c, b and _fmt(b[1]), thr and _fmt(thr[1])))
        if len(must_not) == len(coords) and calls:
            c = coords[0]
            raise Bad('fresh-tile-refetched', '%s: every requested tile is newer than the threshold (tile %s written at %s, '
                      'threshold %s) but the upstream was asked %d time(s)' % (
                          what, c, _fmt(before[c][1]), thr and _fmt(thr[1]), len(calls)))
        ok_calls = [e for e in calls if e['ok']]
        # stored state may only change through a successful fetch covering the tile, and must carry its generation
        for c in pool:
            b, a = before[c], after[c]
            if a == b:
                continue
            if a is None:
                raise Bad('tile-destroyed', '%s: tile %s (generation %s) is gone from the cache' % (what, c, b[0]))
            # (any successful fetch so far counts: a worker thread of an earlier request that was aborted by a failing sibling
            # goes on in the background and may fetch and store its meta tile while a later request is served)
            if not any((a[0] is None or e['gen'] & 255 == a[0]) and U.covers(e['bbox'], c) for e in shared['log'] if e['ok']):
                raise Bad('unattributable-rewrite', '%s: tile %s changed from %r to %r without a successful fetch covering it' % (
                    what, c, b, a))
            if a[0] is not None and (b is None or a[0] != b[0]) and not (int(t_begin / (sc.get('mtime_res') or 1.0)) * (sc.get('mtime_res') or 1.0) <= a[1] <= clock.now + 1e-6):
                # "last written at": what the backend records for a tile written during this request is the time of that
                # write (whole seconds for the sqlite backends), whatever the source says about the age of its data
                raise Bad('write-time-not-recorded', '%s: tile %s was written during this request (%s .. %s) but the cache '
                          'records %s as its time' % (what, c, _fmt(t_begin), _fmt(clock.now), _fmt(a[1])))
        if exc is not None:
            if not any(e['ok'] is False for e in calls) and not getattr(exc, 'injected', False):
                raise Bad('spurious-error', '%s raised %r although no upstream call failed' % (what, exc))
            for c in pool:
                if before[c] is not None and after[c] != before[c] and not ok_calls:
                    raise Bad('failed-refresh-destroyed-tile', '%s: the refresh failed and tile %s changed from %r to %r' % (
                        what, c, before[c], after[c]))
            return
        for c, tile in zip(coords, tiles):
            if tile.source is None:
                raise Bad('no-image', '%s: no image served for %s' % (what, c))
            ok, g, msg = U.check_tile_image(tile.source.as_image(), c, ocean=ocean)
            if not ok:
                raise Bad('wrong-image', '%s: wrong image served for %s: %s' % (what, c, msg))
            a = after[c]
            if g is None:
                continue        # ocean tile: constant colour, no generation to attribute
            if any(e['ok'] is False and U.covers(e['bbox'], c) for e in calls) and before[c] is not None:
                # failed refresh: the old tile may be served instead
                if g != before[c][0] and (a is None or g != a[0]):
                    raise Bad('wrong-generation', '%s: served generation %d for %s, cache had %r and now has %r' % (
                        what, g, c, before[c], a))
                continue
            if a is None or g != a[0]:
                raise Bad('wrong-generation', '%s: served generation %d for %s but the cache now holds %r' % (what, g, c, a))
            mx_, my_ = sc['meta_size']
            # (a requested tile of the same meta tile that is stale, missing or in the unspecified same-second band)
            shares_meta_tile_with_a_stale_one = any((m[0] // mx_, m[1] // my_, m[2]) == (c[0] // mx_, c[1] // my_, c[2])
                                                    for m in coords if m not in must_not)
            # (minimize_meta_requests: one upstream request covers the bounding rectangle of all tiles of the request that are
            # not fresh - fresh tiles inside that rectangle are fetched and rewritten along with them)
            others_ = [m for m in coords if m not in must_not]
            in_minimal_rectangle = bool(sc.get('minimize')) and bool(others_) and \
                min(m[0] for m in others_) <= c[0] <= max(m[0] for m in others_) and \
                min(m[1] for m in others_) <= c[1] <= max(m[1] for m in others_)
            if c in must_not and g != before[c][0] and not shares_meta_tile_with_a_stale_one and not in_minimal_rectangle:
                raise Bad('fresh-tile-refetched', '%s: tile %s is newer than the threshold but generation changed %d -> %d' % (
                    what, c, before[c][0], g))

    def _concurrent(tm, reqs, what, pool):
        """several requests at once (threads sharing the TileManager): a tile refreshed by one of them is newer than
        the threshold for the others and must not be fetched again"""
        storefail['armed'] = False
        thr = threshold_now()
        before = _snapshot(tm, pool)
        n0 = len(shared['log'])
        results = {}

        def client(i, coords):
            def fn():
                try:
                    results[i] = ('ok', tm.load_tile_coords(coords))
                except SourceError as ex:
                    results[i] = ('err', ex)
                except (SimAbort, SimCrash):
                    raise
                except Exception as ex:
                    results[i] = ('raised', ex, ''.join(traceback.format_tb(ex.__traceback__)[-3:]))
            return fn
        tasks = [sched.spawn(client(i, r), 'conc%d' % i, w.main_proc) for i, r in enumerate(reqs)]
        sched.wait_until(lambda: all(t.state == 3 for t in tasks), 'wait-clients')
        for t in tasks:
            if t.exc is not None:
                raise t.exc
        for i in sorted(results):
            if results[i][0] == 'raised':
                raise Bad('request-raised', '%s: request %d raised %r\n%s' % (what, i, results[i][1], results[i][2]))
        thr2 = threshold_now()
        calls = shared['log'][n0:]
        after = _snapshot(tm, pool)
        probes['concurrent_request_ops'] = probes.get('concurrent_request_ops', 0) + 1
        if softfail[0]:
            for c in pool:
                if after[c] != before[c]:
                    raise Bad('uncacheable-result-stored', '%s: the overlay source fails softly (uncacheable error image) but tile %s '
                              'changed in the cache from %r to %r' % (what, c, before[c], after[c]))
            return
        if thr == 'error' or thr2 == 'error' or upfail[0]:
            return
        t = state['thr']
        short_rel = t is not None and t['kind'] == 'rel' and _rel_seconds(t) < 5
        wanted = set(c for r in reqs for c in r)
        mx_, my_ = sc['meta_size']

        def _cl(c):
            b = before[c]
            if b is None or thr is None:
                return 'stale' if b is None else 'fresh'
            return classify(b[1], (min(thr[0], thr2[0]), max(thr[1], thr2[1])))
        for c in wanted:
            b = before[c]
            n_ok = sum(1 for e in calls if e['ok'] and U.covers(e['bbox'], c))
            cl = _cl(c)
            # a wanted tile that is not fresh drags the rest of its meta tile along
            dragged = any(m != c and (m[0] // mx_, m[1] // my_) == (c[0] // mx_, c[1] // my_) and _cl(m) != 'fresh' for m in wanted)
            if cl == 'fresh' and n_ok and not dragged:
                raise Bad('fresh-tile-refetched', '%s: tile %s is newer than the threshold but the upstream was asked for it' % (what, c))
            if cl == 'stale':
                decided[0] += 1
                if n_ok == 0:
                    raise Bad('stale-tile-not-refreshed', '%s: tile %s was stale/missing but no request fetched it' % (what, c))
                first_done = min(e['t1'] for e in calls if e['ok'] and U.covers(e['bbox'], c)) if n_ok else None
                # the second fetch is only unjustified if the tile written by the first one is newer than the threshold
                # (with a threshold in the future every write is stale again at once)
                rewritten_fresh = thr is not None and n_ok and \
                    classify(first_done, (min(thr[0], thr2[0]), max(thr[1], thr2[1]))) == 'fresh' and \
                    classify(first_done + 1.0, (min(thr[0], thr2[0]), max(thr[1], thr2[1]))) == 'fresh'
                if n_ok > 1 and not short_rel and (thr is None or rewritten_fresh):
                    raise Bad('refreshed-tile-refetched', '%s: tile %s was refreshed by one of the concurrent requests (now newer '
                              'than the threshold) and fetched from the upstream again by another one: %d successful fetches by %s' % (
                                  what, c, n_ok, [e['task'] for e in calls if e['ok'] and U.covers(e['bbox'], c)]))
            elif cl == 'unspecified':
                unspecified[0] += 1
        for i, r in enumerate(reqs):
            kind, val = results[i][0], results[i][1]
            if kind != 'ok':
                raise Bad('spurious-error', '%s: request %d raised %r although the upstream did not fail' % (what, i, val))
            for c, tile in zip(r, val):
                if tile.source is None:
                    raise Bad('no-image', '%s: no image served for %s' % (what, c))
                ok, g, msg = U.check_tile_image(tile.source.as_image(), c, ocean=ocean)
                if not ok:
                    raise Bad('wrong-image', '%s: wrong image served for %s: %s' % (what, c, msg))

    def _seed(spec, what, all_level, cache_rule):
        storefail["armed"] = False
        T = float(int(clock.now) + spec["offset"])
        tm2 = make_tm()
        # the seeding tool builds its tile manager from the same configuration: the cache's own refresh_before option
        # (the rule in force while serving) is set there too - the seed task's refresh_before is what the task asked for
        tm2._refresh_before = dict(cache_rule or {})
        task = None
        if sc.get('via_loader') and sc.get('seed_conf') and not upfail[0] and not softfail[0]:
            # the task comes out of the seeding configuration (seed.yaml with an absolute refresh_before); between reading the
            # configuration and seeding, a server on the same cache writes a tile that is still older than the threshold
            from mapproxy.seed.config import SeedingConfiguration
            if spec['offset'] > 0:
                T = float(int(clock.now) + 5)
            seed_conf = {'seeds': {'s': {'caches': ['c1'], 'grids': ['g'], 'levels': [sc['level']],
                                         'refresh_before': {'time': C.iso_local(T)}}}}
            tasks_ = SeedingConfiguration(seed_conf, mapproxy_conf=last_pc[0]).seeds()
            if len(tasks_) == 1 and tasks_[0].tile_manager is tm2:
                task = tasks_[0]
                probes['seed_task_from_configuration'] = probes.get('seed_task_from_configuration', 0) + 1
                clock.now += 1.0
                v_ = tuple(sc['pool'][0])
                tm2._refresh_before = {}
                tm2.cache.remove_tile(Tile(v_))
                tm2.load_tile_coords([v_])
                tm2._refresh_before = dict(cache_rule or {})
        before = _snapshot(tm2, all_level)
        n0 = len(shared['log'])
        extent = BBOXCoverage(grid.bbox, SRS(3857))
        if task is None:
            task = SeedTask({'name': 'refresh', 'cache_name': 'c', 'grid_name': 'g'}, tm2, [sc['level']], T, False, extent)
        try:
            seed_task(task, concurrency=2, skip_geoms_for_last_levels=0, progress_logger=None)
        except SourceError:
            pass
        except seeder.SeedInterrupted:
            pass
        sched.check_alive()
        calls = shared['log'][n0:]
        after = _snapshot(tm2, all_level)
        probes['seed_runs'] = probes.get('seed_runs', 0) + 1
        if softfail[0]:
            for c in all_level:
                if after[c] != before[c]:
                    raise Bad('uncacheable-result-stored', '%s: the overlay source fails softly (uncacheable error image) but the seed '
                              'task changed tile %s in the cache from %r to %r' % (what, c, before[c], after[c]))
            return
        if upfail[0]:
            return      # with a failing upstream the seeder backs off and retries; only non-destruction is checked
        mx, my = sc['meta_size']
        for c in all_level:
            b = before[c]
            main = ((c[0] // mx) * mx, (c[1] // my) * my, c[2])
            members = [m for m in all_level if ((m[0] // mx) * mx, (m[1] // my) * my) == (main[0], main[1])]
            bm = before.get(main)
            if bm is None:
                continue    # uncached meta tiles are seeded too (that is C11's subject)
            cl_main = classify(bm[1], (T, T))
            cls = [classify(before[m][1], (T, T)) if before[m] is not None else 'stale' for m in members]
            fetched = any(U.covers(e['bbox'], c) for e in calls)
            if c == main and cl_main == 'stale':
                decided[0] += 1
                if not fetched:
                    raise Bad('seed-stale-not-refreshed', '%s: tile %s written at %s, refresh_before %s, was not re-fetched by '
                              'the seed task' % (what, c, _fmt(bm[1]), _fmt(T)))
            elif all(x == 'fresh' for x in cls):
                decided[0] += 1
                if fetched or after[c] != b:
                    raise Bad('seed-fresh-refetched', '%s: tile %s written at %s is newer than refresh_before %s but was '
                              're-fetched by the seed task' % (what, c, b and _fmt(b[1]), _fmt(T)))
            else:
                unspecified[0] += 1
        ok_calls = [e for e in calls if e['ok']]
        for c in all_level:
            b, a = before[c], after[c]
            if a != b:
                if a is None:
                    raise Bad('tile-destroyed', '%s: tile %s is gone after the seed task' % (what, c))
                if not any((a[0] is None or e['gen'] & 255 == a[0]) and U.covers(e['bbox'], c) for e in ok_calls):
                    raise Bad('unattributable-rewrite', '%s: tile %s changed from %r to %r without a fetch' % (what, c, b, a))

    err = []

    def driver_task():
        try:
            driver()
        except Bad as b:
            err.append(b)

    try:
        with w:
            sched.spawn(driver_task, 'driver', w.main_proc)
            outcome = w.run_tasks()
            for t in sched.tasks:
                if t.exc is not None:
                    raise t.exc
            if err:
                v = {'sig': 'C13:%s:%s' % (err[0].kind, name), 'msg': err[0].msg}
            elif outcome != 'done':
                v = {'sig': 'C13:hang:%s' % name, 'msg': 'did not terminate: %s %r' % (outcome, sched.stuck_info)}
    finally:
        if realdir is not None:
            shutil.rmtree(realdir, ignore_errors=True)
    probes['decided_cases'] = decided[0]
    if ocean:
        probes['ocean_deployments'] = 1
    return {'violation': v, 'digest': C.digest_of(sc['backend'], sc['meta_size'], sc['ops'], sc['frac'], ocean, sched.log if onsim else len(sched.log), [(e['gen'], e['ok'], e['bbox']) for e in shared['log']], round(clock.now, 6)),
            'nontrivial': decided[0] > 0, 'steps': sched.steps, 'sim_time': clock.now - 1.7e9, 'faults': faults,
            'probes': probes, 'unspecified': unspecified[0],
            'sample': {'deployment': name, 'ops': sc['ops'][:14], 'upstream_calls': len(shared['log'])}}


def _fmt(ts):
    return '%s+%.3f' % (_iso(int(ts)), ts - int(ts))


if __name__ == '__main__':
    import checks.c13 as me
    from simkit import driver
    driver.main(me)
